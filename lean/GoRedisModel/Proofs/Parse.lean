import GoRedisModel.Model.ParserSpec
import GoRedisModel.Proofs.Dec
namespace GoRedis

theorem takeLine_append (p rest : Bytes) (h : CR ∉ p) :
    takeLine (p ++ CR :: LF :: rest) = (p, rest) := by
  induction p with
  | nil => simp [takeLine]
  | cons b bs ih =>
    have hb : b ≠ CR := by intro e; subst e; simp at h
    have hbs : CR ∉ bs := by intro e; exact h (List.mem_cons_of_mem _ e)
    simp [takeLine, hb, ih hbs]

theorem sanitize_id (p : Bytes) (h1 : CR ∉ p) (h2 : LF ∉ p) : sanitize p = p := by
  induction p with
  | nil => rfl
  | cons b bs ih =>
    have hb1 : b ≠ CR := by intro e; subst e; simp at h1
    have hb2 : b ≠ LF := by intro e; subst e; simp at h2
    have t1 : CR ∉ bs := fun e => h1 (List.mem_cons_of_mem _ e)
    have t2 : LF ∉ bs := fun e => h2 (List.mem_cons_of_mem _ e)
    have := ih t1 t2
    simp only [sanitize] at this
    simp [sanitize, sanByte, hb1, hb2, this]

theorem sanByte_not_crlf (b : UInt8) : sanByte b ≠ CR ∧ sanByte b ≠ LF := by
  unfold sanByte
  split
  · decide
  · rename_i h; simp at h; exact ⟨h.1, h.2⟩

theorem sanitize_no_cr (p : Bytes) : CR ∉ sanitize p := by
  intro h; simp [sanitize] at h
  obtain ⟨a, _, ha⟩ := h
  exact (sanByte_not_crlf a).1 ha

theorem sanitize_no_lf (p : Bytes) : LF ∉ sanitize p := by
  intro h; simp [sanitize] at h
  obtain ⟨a, _, ha⟩ := h
  exact (sanByte_not_crlf a).2 ha

theorem lineTy_byte (t : LineTy) :
    (t.byte == arrayByte) = false ∧ (t.byte == bulkByte) = false ∧ lineTy? t.byte = some t := by
  cases t <;> decide

theorem parseElems_ok (p : Bytes → PRes) (ms : List Msg) (rest : Bytes) (acc : List Msg)
    (h : ∀ m ∈ ms, ∀ r, p (enc m ++ r) = .ok m r) :
    parseElems p ms.length (encs ms ++ rest) acc = .ok (.arr (acc.reverse ++ ms)) rest := by
  induction ms generalizing acc with
  | nil => simp [parseElems, encs]
  | cons m ms ih =>
    simp only [List.length_cons, parseElems, encs, List.append_assoc]
    rw [h m (by simp)]
    simp only
    rw [ih]
    · simp
    · intro m' hm' r; exact h m' (by simp [hm']) r

theorem maxBulk_le_maxInt : maxBulk ≤ maxInt := by decide

mutual
/-- The round trip: every canonical value tree, followed by arbitrary bytes, parses back to itself and
leaves exactly the trailing bytes. -/
theorem parse_enc (m : Msg) (hw : wf m) (f : Nat) (hf : depth m < f) (rest : Bytes) :
    parse f (enc m ++ rest) = .ok m rest := by
  match m with
  | .line t p =>
    obtain ⟨f, rfl⟩ : ∃ f', f = f' + 1 := ⟨f - 1, by omega⟩
    have ⟨h1, h2, h3⟩ := lineTy_byte t
    simp only [wf] at hw
    simp [enc, parse, h1, h2, h3, sanitize_id p hw.1 hw.2, CRLF, takeLine_append _ _ hw.1]
  | .bulk none =>
    obtain ⟨f, rfl⟩ : ∃ f', f = f' + 1 := ⟨f - 1, by omega⟩
    simp [enc, parse, takeLine, CR, LF, CRLF, atoi, digitsVal, maxInt, bulkByte, arrayByte]
  | .bulk (some p) =>
    obtain ⟨f, rfl⟩ : ∃ f', f = f' + 1 := ⟨f - 1, by omega⟩
    simp only [wf] at hw
    have hmi : p.length ≤ maxInt := Nat.le_trans hw maxBulk_le_maxInt
    have hl := takeLine_append (dec p.length) (p ++ CR :: LF :: rest) (dec_no_cr _)
    simp only [enc, CRLF, List.cons_append, List.append_assoc, List.nil_append, parse]
    rw [hl]
    have hneg : ¬ ((p.length : Int) < 0) := by omega
    have hb : ¬ (p.length > maxBulk) := by omega
    have h2 : ¬ (rest.length + 1 + 1 < 2) := by omega
    simp [atoi_dec _ hmi, hneg, hb, h2, bulkByte, arrayByte]
  | .arr es =>
    obtain ⟨f, rfl⟩ : ∃ f', f = f' + 1 := ⟨f - 1, by omega⟩
    simp only [wf] at hw
    simp only [depth] at hf
    have hl := takeLine_append (dec es.length) (encs es ++ rest) (dec_no_cr _)
    simp only [enc, CRLF, List.cons_append, List.append_assoc, List.nil_append, parse]
    rw [hl]
    simp only [atoi_dec _ hw.1]
    have := parseElems_ok (parse f) es rest [] (parse_encs es hw.2 f (by omega))
    have hneg : ¬ ((es.length : Int) < 0) := by omega
    simpa [hneg, arrayByte] using this
  | .absent => simp [wf] at hw
  | .arrNil => simp [wf] at hw
theorem parse_encs (ms : List Msg) (hw : wfs ms) (f : Nat) (hf : depths ms < f ∨ ms = []) :
    ∀ m ∈ ms, ∀ r, parse f (enc m ++ r) = .ok m r := by
  match ms with
  | [] => simp
  | m :: ms =>
    simp only [wfs] at hw
    have hf' : max (depth m) (depths ms) < f := by
      rcases hf with h | h
      · simpa [depths] using h
      · simp at h
    intro m' hm' r
    simp at hm'
    rcases hm' with rfl | hm'
    · exact parse_enc m' hw.1 f (by omega) r
    · exact parse_encs ms hw.2 f (Or.inl (by omega)) m' hm' r
end

end GoRedis
