import GoRedisModel.Properties.Grammar
import GoRedisModel.Proofs.SourceFacts
/-! The executor *shapes* regenerated from /repo's source (`Generated.executorShapes`: per registered command the
kinds of argument readers its executor calls, in source order, and the handler operations it reaches) compared with
what the model and the independent grammar say.  Re-checked by the kernel on every run against the table `bin/extract`
has just produced: an executor that reads its arguments in another order, reads another kind of argument, or reaches
another handler operation no longer matches. -/
namespace GoRedis
open Generated

/-- the Go method of the application's handler a handler call stands for -/
def HCall.goName : HCall → String
  | .auth .. => "Auth" | .del .. => "Del" | .exists_ .. => "Exists" | .expire .. => "Expire" | .keys .. => "Keys"
  | .rename .. => "Rename" | .type_ .. => "Type" | .ttl .. => "TTL" | .scan .. => "Scan" | .get .. => "Get"
  | .set .. => "Set" | .hdel .. => "HDel" | .hset .. => "HSet" | .hget .. => "HGet" | .hgetall .. => "HGetAll"
  | .lpush .. => "LPush" | .rpush .. => "RPush" | .lpop .. => "LPop" | .rpop .. => "RPop" | .lrange .. => "LRange"
  | .lindex .. => "LIndex" | .llen .. => "LLen" | .sadd .. => "SAdd" | .smembers .. => "SMembers" | .srem .. => "SRem"
  | .zadd .. => "ZAdd" | .zrange .. => "ZRange" | .zrangebyscore .. => "ZRangeByScore" | .zrem .. => "ZRem"
  | .zscore .. => "ZScore" | .zincrby .. => "ZIncBy"

/-- the reader kinds a positional form stands for, and the handler call it makes (on sample arguments) -/
def Form.kinds : Form → String
  | .s _ => "S" | .ss _ => "SS" | .sss _ => "SSS" | .si _ => "SI" | .sii _ => "SII" | .sfs _ => "SFS" | .l _ => "L" | .sl _ => "SL"

def Form.sample : Form → HCall
  | .s f => f [] | .ss f => f [] [] | .sss f => f [] [] [] | .si f => f [] 0 | .sii f => f [] 0 0 | .sfs f => f [] 0 []
  | .l f => f [] | .sl f => f [] []

def isHandlerCall (c : String) : Bool := c.toList.contains ':' || c == "X"
def readersOf (calls : List String) : List Char := (calls.filter fun c => !isHandlerCall c).flatMap String.toList
def handlersOf (calls : List String) : List String := calls.filter isHandlerCall

/-- what the model's executors for the commands *outside* the positional grammar read and reach (written from
`Model/Exec.lean`): option-bearing commands, composites over primitive operations, system commands, re-entrant
commands (`X` = re-enters command dispatch) -/
def modelOtherShapes : List (String × String × List String) := [
  ("APPEND", "SS", ["H:Get", "H:Set"]), ("AUTH", "", ["A:Auth"]),
  ("CONFIG", "PL", ["Y:ConfigSet", "Y:ConfigGet"]),
  ("DECR", "S", []), ("DECRBY", "SI", []), ("INCR", "S", []), ("INCRBY", "SI", []),
  ("ECHO", "", ["Y:Echo"]), ("PING", "", ["Y:Ping"]), ("QUIT", "", ["Y:Quit"]), ("SELECT", "", ["Y:Select"]),
  ("EXPIRE", "SI<ExpireOption>", ["H:Expire"]), ("EXPIREAT", "SI<ExpireOption>", ["H:Expire"]),
  ("GETRANGE", "SII", ["H:Get"]),
  ("HEXISTS", "", ["X"]), ("HKEYS", "", ["X"]), ("HLEN", "", ["X"]), ("HSTRLEN", "", ["X"]), ("HVALS", "", ["X"]),
  ("STRLEN", "", ["X"]), ("SUBSTR", "", ["X"]),
  ("HMGET", "SL", ["H:HGet"]), ("HMSET", "SP", ["H:HSet"]),
  ("LPOP", "SI", ["H:LPop"]), ("RPOP", "SI", ["H:RPop"]),
  ("MGET", "L", ["H:Get"]), ("MSET", "P", ["H:Set"]), ("MSETNX", "P", ["H:Get", "H:Set"]),
  ("SCAN", "I<ScanOption>", ["H:Scan"]),
  ("SCARD", "S", ["H:SMembers"]), ("SISMEMBER", "SS", ["H:SMembers"]),
  ("SET", "SS<SetOption>", ["H:Set"]), ("SETEX", "SIS", ["H:Set"]),
  ("ZADD", "SSFS", ["H:ZAdd"]), ("ZCARD", "S", ["H:ZRange"]),
  ("ZRANGE", "SSS<ZRangeOption>", ["H:ZRangeByScore", "H:ZRange"]),
  ("ZRANGEBYSCORE", "SFBFB<ZRangeOption>", ["H:ZRangeByScore"]),
  ("ZREVRANGE", "SII<ZRangeOption>", ["H:ZRange"]),
  ("ZREVRANGEBYSCORE", "SFBFB<ZRangeOption>", ["H:ZRangeByScore"])]

def modelShape (name : String) : Option (List Char × List String) :=
  match grammar.find? fun row => bytesToString row.name == name with
  | some row => some (row.form.kinds.toList, ["H:" ++ row.form.sample.goName])
  | none => (modelOtherShapes.lookup name).map fun p => (p.1.toList, p.2)

/-- **every executor of the current source has the shape the model (and, for the 28 positional commands, the
independent grammar) gives it** -/
theorem source_shapes_match_model :
    (executorShapes.all fun e => modelShape e.1 == some (readersOf e.2, handlersOf e.2)) = true := by
  decide +kernel

/-- … and every grammar row has an executor in the source -/
theorem grammar_rows_registered :
    (grammar.all fun row => (executorShapes.lookup (bytesToString row.name)).isSome) = true := by decide +kernel

end GoRedis
