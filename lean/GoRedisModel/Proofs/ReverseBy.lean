import GoRedisModel.Model.ReverseBy
/-! The loops of `Array.ReverseBy` compute the reversal by groups, never index out of range, and run out of fuel for no
input. -/
namespace GoRedis.Ex
open GoRedis

theorem groupAt_eq {α : Type} (msgs : List α) (n a : Nat) (h : a + n ≤ msgs.length) :
    groupAt msgs a n = some ((msgs.drop a).take n) := by
  induction n generalizing a with
  | zero => simp [groupAt]
  | succ n ih =>
    have ha : a < msgs.length := by omega
    simp only [groupAt, List.getElem?_eq_getElem ha]
    rw [ih (a + 1) (by omega)]
    simp only [Option.map_some]
    congr 1
    conv => rhs; rw [List.drop_eq_getElem_cons ha, List.take_succ_cons]

theorem loop_eq {α : Type} (msgs : List α) (step : Nat) (hs : 1 ≤ step) (f i : Nat) (acc : List α)
    (hi : i ≤ msgs.length) (hf : msgs.length - i < f) :
    reverseByLoop msgs step f i acc = some (acc ++ revTail step f (msgs.take (msgs.length - i))) := by
  induction f generalizing i acc with
  | zero => omega
  | succ f ih =>
    unfold reverseByLoop revTail
    have hlen : (msgs.take (msgs.length - i)).length = msgs.length - i := by simp
    by_cases hc : i + step ≤ msgs.length
    · have hc' : step ≤ (msgs.take (msgs.length - i)).length := by rw [hlen]; omega
      have ha : (msgs.length - i - 1) - (step - 1) = msgs.length - i - step := by omega
      simp only [hc, hc', if_true, ha]
      rw [groupAt_eq msgs step _ (by omega)]
      simp only
      rw [ih (i + step) _ (by omega) (by omega)]
      have e1 : msgs.length - (i + step) = msgs.length - i - step := by omega
      have e2 : List.take ((msgs.take (msgs.length - i)).length - step) (msgs.take (msgs.length - i)) = msgs.take (msgs.length - i - step) := by
        rw [hlen, List.take_take]; congr 1; omega
      have e3 : List.drop ((msgs.take (msgs.length - i)).length - step) (msgs.take (msgs.length - i)) = (msgs.drop (msgs.length - i - step)).take step := by
        rw [hlen, List.drop_take]; congr 1; omega
      rw [e1, e2, e3, List.append_assoc]
    · have hc' : ¬ step ≤ (msgs.take (msgs.length - i)).length := by rw [hlen]; omega
      simp only [hc, hc', if_false]

theorem reverseBy_eq {α : Type} (msgs : List α) (step : Int) :
    reverseBy msgs step = some (revTail (if step < 1 then 1 else step.toNat) (msgs.length + 1) msgs) := by
  unfold reverseBy
  have hs : 1 ≤ (if step < 1 then 1 else step.toNat) := by split <;> omega
  have := loop_eq msgs _ hs (msgs.length + 1) 0 [] (by omega) (by omega)
  simpa using this

theorem revTail_one {α : Type} (f : Nat) (p : List α) (h : p.length ≤ f) : revTail 1 f p = p.reverse := by
  induction f generalizing p with
  | zero => have : p = [] := List.length_eq_zero_iff.mp (by omega); subst this; rfl
  | succ f ih =>
    unfold revTail
    by_cases hc : 1 ≤ p.length
    · simp only [hc, if_true]
      rw [ih _ (by simp; omega)]
      have hp : p = p.take (p.length - 1) ++ p.drop (p.length - 1) := (List.take_append_drop _ _).symm
      have hd : (p.drop (p.length - 1)).reverse = p.drop (p.length - 1) := by
        have : (p.drop (p.length - 1)).length = 1 := by simp; omega
        match hq : p.drop (p.length - 1), this with
        | [x], _ => rfl
      conv => rhs; rw [hp, List.reverse_append, hd]
    · have : p = [] := List.length_eq_zero_iff.mp (by omega)
      subst this; simp

theorem rep_append (t : List Msg) (n : Nat) (q : List Msg) (h : q.length = 2 * n) :
    reverseEvenPairs (q ++ t) = reverseEvenPairs t ++ reverseEvenPairs q := by
  induction n generalizing q with
  | zero => have : q = [] := List.length_eq_zero_iff.mp (by omega); subst this; simp [reverseEvenPairs]
  | succ n ih =>
    match q, h with
    | a :: b :: q', h =>
      simp only [List.cons_append, reverseEvenPairs]
      rw [ih q' (by simp at h; omega), List.append_assoc]

theorem reversePairs_snoc2 (q : List Msg) (a b : Msg) : reversePairs (q ++ [a, b]) = [a, b] ++ reversePairs q := by
  have hab : reverseEvenPairs [a, b] = [a, b] := by simp [reverseEvenPairs]
  unfold reversePairs
  by_cases he : q.length % 2 = 0
  · have he' : (q ++ [a, b]).length % 2 = 0 := by simp; omega
    simp only [he, he', if_true]
    rw [rep_append [a, b] (q.length / 2) q (by omega), hab]
  · have he' : ¬ (q ++ [a, b]).length % 2 = 0 := by simp; omega
    simp only [he, he', if_false]
    match q, he with
    | x :: q', he =>
      simp only [List.cons_append, List.tail_cons, List.take_succ_cons, List.take_zero]
      rw [rep_append [a, b] (q'.length / 2) q' (by simp at he; omega), hab, List.append_assoc]
      simp

theorem revTail_two (f : Nat) (p : List Msg) (h : p.length ≤ f) : revTail 2 f p = reversePairs p := by
  induction f generalizing p with
  | zero => have : p = [] := List.length_eq_zero_iff.mp (by omega); subst this; simp [revTail, reversePairs, reverseEvenPairs]
  | succ f ih =>
    unfold revTail
    by_cases hc : 2 ≤ p.length
    · simp only [hc, if_true]
      rw [ih _ (by simp; omega)]
      have hp : p = p.take (p.length - 2) ++ p.drop (p.length - 2) := (List.take_append_drop _ _).symm
      have : (p.drop (p.length - 2)).length = 2 := by simp; omega
      match hq : p.drop (p.length - 2), this with
      | [a, b], _ =>
        conv => rhs; rw [hp, hq, reversePairs_snoc2]
    · simp only [hc, if_false]
      match p, hc with
      | [], _ => simp [reversePairs, reverseEvenPairs]
      | [x], _ => simp [reversePairs, reverseEvenPairs]
      | _ :: _ :: _, hc => simp at hc

/-! ## the LIMIT loop -/

theorem limitLoop_two {α : Type} (offset count : Int) (ho : 0 ≤ offset) (l : List α) (n : Nat) (acc : List α) :
    limitLoop 2 offset count n l acc =
      acc ++ (if count < 0 then l.drop (2 * offset.toNat - n)
              else (l.drop (2 * offset.toNat - n)).take (2 * (offset + count).toNat - max n (2 * offset.toNat))) := by
  induction l generalizing n acc with
  | nil => simp [limitLoop]
  | cons e es ih =>
    unfold limitLoop
    simp only
    by_cases h1 : ((n : Int) / ((2 : Nat) : Int)) < offset
    · have hn : n < 2 * offset.toNat := by omega
      simp only [h1, if_true]
      rw [ih]
      have e1 : 2 * offset.toNat - n = (2 * offset.toNat - (n + 1)) + 1 := by omega
      have e2 : max (n + 1) (2 * offset.toNat) = max n (2 * offset.toNat) := by omega
      rw [e1, List.drop_succ_cons, e2]
    · have hn : 2 * offset.toNat ≤ n := by omega
      simp only [h1, if_false]
      have d0 : 2 * offset.toNat - n = 0 := by omega
      have d1 : 2 * offset.toNat - (n + 1) = 0 := by omega
      by_cases h2 : 0 ≤ count ∧ count ≤ ((n : Int) / ((2 : Nat) : Int)) - offset
      · have hc : ¬ count < 0 := by omega
        have hk : 2 * (offset + count).toNat - max n (2 * offset.toNat) = 0 := by omega
        simp only [h2, and_self, if_true, hc, if_false, hk, List.take_zero, List.append_nil]
      · simp only [h2, if_false]
        rw [ih, d0, d1]
        by_cases hc : count < 0
        · simp [hc]
        · have hk : 2 * (offset + count).toNat - max n (2 * offset.toNat) = (2 * (offset + count).toNat - max (n + 1) (2 * offset.toNat)) + 1 := by omega
          simp only [hc, if_false, List.drop_zero, hk, List.take_succ_cons, List.append_assoc, List.cons_append, List.nil_append]
theorem limitLoop_one {α : Type} (offset count : Int) (ho : 0 ≤ offset) (l : List α) (n : Nat) (acc : List α) :
    limitLoop 1 offset count n l acc =
      acc ++ (if count < 0 then l.drop (1 * offset.toNat - n)
              else (l.drop (1 * offset.toNat - n)).take (1 * (offset + count).toNat - max n (1 * offset.toNat))) := by
  induction l generalizing n acc with
  | nil => simp [limitLoop]
  | cons e es ih =>
    unfold limitLoop
    simp only
    by_cases h1 : ((n : Int) / ((1 : Nat) : Int)) < offset
    · have hn : n < 1 * offset.toNat := by omega
      simp only [h1, if_true]
      rw [ih]
      have e1 : 1 * offset.toNat - n = (1 * offset.toNat - (n + 1)) + 1 := by omega
      have e2 : max (n + 1) (1 * offset.toNat) = max n (1 * offset.toNat) := by omega
      rw [e1, List.drop_succ_cons, e2]
    · have hn : 1 * offset.toNat ≤ n := by omega
      simp only [h1, if_false]
      have d0 : 1 * offset.toNat - n = 0 := by omega
      have d1 : 1 * offset.toNat - (n + 1) = 0 := by omega
      by_cases h2 : 0 ≤ count ∧ count ≤ ((n : Int) / ((1 : Nat) : Int)) - offset
      · have hc : ¬ count < 0 := by omega
        have hk : 1 * (offset + count).toNat - max n (1 * offset.toNat) = 0 := by omega
        simp only [h2, and_self, if_true, hc, if_false, hk, List.take_zero, List.append_nil]
      · simp only [h2, if_false]
        rw [ih, d0, d1]
        by_cases hc : count < 0
        · simp [hc]
        · have hk : 1 * (offset + count).toNat - max n (1 * offset.toNat) = (1 * (offset + count).toNat - max (n + 1) (1 * offset.toNat)) + 1 := by omega
          simp only [hc, if_false, List.drop_zero, hk, List.take_succ_cons, List.append_assoc, List.cons_append, List.nil_append]

theorem limitReversed_eq (step : Nat) (hs : step = 1 ∨ step = 2) (offset count : Int) (l : List Msg) :
    limitReversed step offset count l = limitEntries step offset count l := by
  unfold limitReversed limitEntries
  by_cases h0 : offset = 0 ∧ count < 0
  · obtain ⟨ho, hc⟩ := h0
    subst ho
    simp [hc]
  · simp only [h0, if_false]
    by_cases ho : 0 ≤ offset
    · have ho' : ¬ offset < 0 := by omega
      simp only [ho, if_true, ho', if_false]
      rcases hs with rfl | rfl
      · rw [limitLoop_one offset count ho]
        by_cases hc : count < 0
        · simp [hc, Nat.mul_comm]
        · have e : (offset + count).toNat * 1 - max 0 (offset.toNat * 1) = count.toNat * 1 := by omega
          simp only [hc, if_false, List.nil_append, Nat.sub_zero, Nat.mul_comm 1]
          rw [e]
      · rw [limitLoop_two offset count ho]
        by_cases hc : count < 0
        · simp [hc, Nat.mul_comm]
        · have e : (offset + count).toNat * 2 - max 0 (offset.toNat * 2) = count.toNat * 2 := by omega
          simp only [hc, if_false, List.nil_append, Nat.sub_zero, Nat.mul_comm 2]
          rw [e]
    · have ho' : offset < 0 := by omega
      simp [ho, ho']
end GoRedis.Ex
