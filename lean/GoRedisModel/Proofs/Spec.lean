import GoRedisModel.Model.RefStore
namespace GoRedis

/-! ## The store as a finite map -/

theorem Store.get_put_same (s : Store) (k : Bytes) (v : Val) : (s.put k v).get k = some v := by
  induction s with
  | nil => simp [Store.put, Store.get, List.lookup]
  | cons p rest ih =>
    obtain ⟨k', v'⟩ := p
    unfold Store.put
    by_cases h : k' = k
    · subst h; simp [Store.get, List.lookup]
    · have h1 : (k' == k) = false := by simp [h]
      have h2 : (k == k') = false := by simp [Ne.symm h]
      simp only [h1, Bool.false_eq_true, if_false, Store.get, List.lookup, h2]
      exact ih

theorem Store.get_put_other (s : Store) (k k2 : Bytes) (v : Val) (h : k2 ≠ k) : (s.put k v).get k2 = s.get k2 := by
  have hk2 : (k2 == k) = false := by simp [h]
  induction s with
  | nil => simp [Store.put, Store.get, List.lookup, hk2]
  | cons p rest ih =>
    obtain ⟨k', v'⟩ := p
    unfold Store.put
    by_cases hk : k' = k
    · subst hk; simp [Store.get, List.lookup, hk2]
    · have h1 : (k' == k) = false := by simp [hk]
      simp only [h1, Bool.false_eq_true, if_false, Store.get, List.lookup]
      cases hh : k2 == k' with
      | true => rfl
      | false => exact ih

theorem Store.get_del_same (s : Store) (k : Bytes) : (s.del k).get k = none := by
  induction s with
  | nil => rfl
  | cons p rest ih =>
    obtain ⟨k', v'⟩ := p
    unfold Store.del
    by_cases hk : k' = k
    · subst hk; simpa [List.filter, Store.get, Store.del] using ih
    · have h1 : (k' != k) = true := by simp [hk]
      have h2 : (k == k') = false := by simp [Ne.symm hk]
      simp only [List.filter, h1, Store.get, List.lookup, h2]
      exact ih

theorem Store.get_del_other (s : Store) (k k2 : Bytes) (h : k2 ≠ k) : (s.del k).get k2 = s.get k2 := by
  induction s with
  | nil => rfl
  | cons p rest ih =>
    obtain ⟨k', v'⟩ := p
    unfold Store.del
    by_cases hk : k' = k
    · subst hk
      have h2 : (k2 == k') = false := by simp [h]
      simp only [List.filter, bne_self_eq_false, Store.get, List.lookup, h2]
      exact ih
    · have h1 : (k' != k) = true := by simp [hk]
      simp only [List.filter, h1, Store.get, List.lookup]
      cases hh : k2 == k' with
      | true => rfl
      | false => exact ih

/-! ## Index arithmetic -/

theorem rangeBounds_some (len start stop : Int) (s e : Nat) (h : rangeBounds len start stop = some (s, e)) :
    s ≤ e ∧ (e : Int) < len ∧ (s : Int) = max 0 (normIdx len start) ∧ (e : Int) = min (len - 1) (normIdx len stop) := by
  unfold rangeBounds at h
  simp only at h
  split at h
  · simp at h
  · simp at h
    obtain ⟨rfl, rfl⟩ := h
    omega

/-- in-range, non-negative indexes select exactly the closed interval -/
theorem rangeSlice_inrange {α : Type} (l : List α) (i j : Nat) (hij : i ≤ j) (hj : j < l.length) :
    rangeSlice l i j = (l.drop i).take (j + 1 - i) := by
  have h1 : normIdx l.length i = i := by simp [normIdx]; omega
  have h2 : normIdx l.length j = j := by simp [normIdx]; omega
  have hb : rangeBounds l.length i j = some (i, j) := by
    unfold rangeBounds
    simp only [h1, h2]
    have hgt : ¬ (max 0 (i : Int) > min ((l.length : Int) - 1) j) := by omega
    have hs : (max 0 (i : Int)).toNat = i := by omega
    have he : (min ((l.length : Int) - 1) j).toNat = j := by omega
    simp only [hgt, if_false, hs, he]
  simp only [rangeSlice, hb]

/-- the window of the mirrored indexes is the mirror image of the window -/
theorem rangeBounds_mirror (n i j : Int) (hn : 0 ≤ n) :
    rangeBounds n (-j - 1) (-i - 1) =
      (rangeBounds n i j).map fun p => ((n - 1 - p.2).toNat, (n - 1 - p.1).toNat) := by
  unfold rangeBounds normIdx
  simp only
  by_cases hi : i < 0 <;> by_cases hj : j < 0 <;>
    (have hi' : (-i - 1 < 0) ↔ ¬ (i < 0) := by omega
     have hj' : (-j - 1 < 0) ↔ ¬ (j < 0) := by omega
     simp only [hi, hj, hi', hj', if_true, if_false, not_true, not_false_eq_true]
     split <;> split <;> simp <;> omega)

theorem take_drop_reverse {α : Type} (l : List α) (s e : Nat) (hse : s ≤ e) (he : e < l.length) :
    (l.reverse.drop s).take (e + 1 - s) = ((l.drop (l.length - 1 - e)).take (e + 1 - s)).reverse := by
  rw [List.drop_reverse, List.take_reverse]
  congr 1
  rw [List.drop_take]
  have h1 : (l.take (l.length - s)).length = l.length - s := by simp [List.length_take]
  rw [h1]
  have h2 : l.length - s - (e + 1 - s) = l.length - 1 - e := by omega
  have h3 : l.length - s - (l.length - 1 - e) = e + 1 - s := by omega
  rw [h2, h3]

/-- **The reverse-order slice.**  Taking positions `i..j` of the reversed sequence (ZREVRANGE) is the same as
taking positions `-j-1 .. -i-1` of the sequence and reversing the result — for every length and all
indexes, negative and out of range included. -/
theorem rangeSlice_reverse {α : Type} (l : List α) (i j : Int) :
    rangeSlice l.reverse i j = (rangeSlice l (-j - 1) (-i - 1)).reverse := by
  unfold rangeSlice
  simp only [List.length_reverse]
  rw [rangeBounds_mirror l.length i j (by omega)]
  cases h : rangeBounds l.length i j with
  | none => simp
  | some p =>
    obtain ⟨s, e⟩ := p
    obtain ⟨hse, he, _, _⟩ := rangeBounds_some _ _ _ _ _ h
    simp only [Option.map]
    have e1 : ((l.length : Int) - 1 - e).toNat = l.length - 1 - e := by omega
    have e2 : ((l.length : Int) - 1 - s).toNat = l.length - 1 - s := by omega
    rw [e1, e2]
    have hw : l.length - 1 - s + 1 - (l.length - 1 - e) = e + 1 - s := by omega
    rw [hw]
    exact take_drop_reverse l s e hse (by omega)

end GoRedis
