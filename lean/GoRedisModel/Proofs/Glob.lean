import GoRedisModel.Model.Glob
namespace GoRedis

/-- Redis glob semantics, declaratively: `*` matches any (possibly empty) sequence, `?` exactly one
character, every other character only itself; the whole key must be consumed. -/
inductive Matches : Bytes → Bytes → Prop
  | nil : Matches [] []
  | star (ps k1 k2 : Bytes) : Matches ps k2 → Matches (42 :: ps) (k1 ++ k2)
  | one (ps : Bytes) (c : UInt8) (cs : Bytes) : Matches ps cs → Matches (63 :: ps) (c :: cs)
  | lit (c : UInt8) (ps cs : Bytes) : c ≠ 42 → c ≠ 63 → Matches ps cs → Matches (c :: ps) (c :: cs)

theorem globMatch_star_append (ps k1 k2 : Bytes) (h : globMatch ps k2 = true) : globMatch (42 :: ps) (k1 ++ k2) = true := by
  induction k1 with
  | nil =>
    cases k2 with
    | nil => unfold globMatch; simp [h]
    | cons c cs => unfold globMatch; simp [h]
  | cons c k1 ih =>
    simp only [List.cons_append]
    unfold globMatch
    simp [ih]

theorem globMatch_of_matches (p k : Bytes) (h : Matches p k) : globMatch p k = true := by
  induction h with
  | nil => unfold globMatch; rfl
  | star ps k1 k2 _ ih => exact globMatch_star_append ps k1 k2 ih
  | one ps c cs _ ih => unfold globMatch; simp [ih]
  | lit c ps cs h1 h2 _ ih =>
    unfold globMatch
    have : (c == 42) = false := by simp [h1]
    simp [this, ih]

theorem matches_of_globMatch (p k : Bytes) (h : globMatch p k = true) : Matches p k := by
  fun_induction globMatch p k with
  | case1 => exact .nil
  | case2 hd tl => simp at h
  | case3 p ps hp ih =>
    have hp' : p = 42 := by simpa using hp
    subst hp'
    have := Matches.star ps [] [] (ih h)
    simpa using this
  | case4 p ps hp c cs ih1 ih2 =>
    have hp' : p = 42 := by simpa using hp
    subst hp'
    simp only [Bool.or_eq_true] at h
    rcases h with h | h
    · have := Matches.star ps [] (c :: cs) (ih1 h)
      simpa using this
    · have hm := ih2 h
      cases hm with
      | star ps' k1 k2 hk =>
        have := Matches.star ps (c :: k1) k2 hk
        simpa using this
      | lit c' ps' cs' h1 _ _ => exact absurd rfl h1
  | case5 p ps hp => simp at h
  | case6 p ps hp c cs ih =>
    simp only [Bool.and_eq_true, Bool.or_eq_true] at h
    obtain ⟨hc, hrest⟩ := h
    have hne : p ≠ 42 := by simpa using hp
    rcases hc with hc | hc
    · have : p = 63 := by simpa using hc
      subst this; exact .one ps c cs (ih hrest)
    · have : p = c := by simpa using hc
      subst this
      by_cases h63 : p = 63
      · subst h63; exact .one ps _ cs (ih hrest)
      · exact .lit p ps cs hne h63 (ih hrest)

/-- the executable matcher decides the declarative semantics -/
theorem globMatch_iff (p k : Bytes) : globMatch p k = true ↔ Matches p k :=
  ⟨matches_of_globMatch p k, globMatch_of_matches p k⟩


theorem globTok_src (c : UInt8) : globTok c = (gtok c).src := by
  unfold globTok gtok
  split
  · rfl
  · split
    · rfl
    · rfl

/-- the regular expression the framework compiles is: anchors, dot-matches-newline, and one of the three
token shapes per pattern character — nothing of the pattern is interpreted as regular-expression syntax -/
theorem globRegex_tokens (p : Bytes) : globRegex p = b!"(?s)^" ++ (p.map gtok).flatMap GTok.src ++ b!"$" := by
  unfold globRegex
  congr 2
  induction p with
  | nil => rfl
  | cons c cs ih => simp [List.flatMap_cons, globTok_src, ih]

/-- under the assumed semantics of the three token shapes, the compiled pattern matches exactly what the
direct matcher matches -/
theorem tokMatch_eq_globMatch (p k : Bytes) : tokMatch (p.map gtok) k = globMatch p k := by
  fun_induction globMatch p k with
  | case1 => unfold tokMatch; rfl
  | case2 hd tl => unfold tokMatch; rfl
  | case3 p ps hp ih =>
    have hp' : p = 42 := by simpa using hp
    subst hp'
    simp only [List.map, gtok, beq_self_eq_true, if_true]
    unfold tokMatch
    simp [ih]
  | case4 p ps hp c cs ih1 ih2 =>
    have hp' : p = 42 := by simpa using hp
    subst hp'
    simp only [List.map, gtok, beq_self_eq_true, if_true] at ih1 ih2 ⊢
    unfold tokMatch
    simp [ih1, ih2]
  | case5 p ps hp =>
    have hne : (p == 42) = false := by simpa using hp
    by_cases h63 : p = 63
    · subst h63
      have : gtok 63 = .anyOne := by decide
      simp only [List.map, this]
      unfold tokMatch; rfl
    · have h63' : (p == 63) = false := by simpa using h63
      have : gtok p = .lit p := by simp [gtok, hne, h63']
      simp only [List.map, this]
      unfold tokMatch; rfl
  | case6 p ps hp c cs ih =>
    have hne : (p == 42) = false := by simpa using hp
    by_cases h63 : p = 63
    · subst h63
      have : gtok 63 = .anyOne := by decide
      simp only [List.map, this]
      unfold tokMatch
      simp [ih]
    · have h63' : (p == 63) = false := by simpa using h63
      have : gtok p = .lit p := by simp [gtok, hne, h63']
      simp only [List.map, this]
      unfold tokMatch
      simp [h63', ih]

end GoRedis
