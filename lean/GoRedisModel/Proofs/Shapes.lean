import GoRedisModel.Proofs.Dispatch
namespace GoRedis

/-- an executor rejected the request: an error outcome without any handler call -/
def Rejects (p : UProg Out) : Prop := ∃ e, p = failE e

theorem withArgs_ok {α : Type} (r : R α) (args rest : List Msg) (a : α) (k : α → List Msg → UProg Out)
    (h : r args = .ok (a, rest)) : withArgs r args k = k a rest := by simp [withArgs, h]

theorem withArgs_err {α : Type} (r : R α) (args : List Msg) (e : Err) (k : α → List Msg → UProg Out)
    (h : r args = .error e) : withArgs r args k = failE e := by simp [withArgs, h]

/-! ### `S` -/
theorem shapeS_ok (mk : Bytes → HCall) (k : Bytes) (rest : List Msg) : shapeS mk (B k :: rest) = callRet (mk k) := rfl
theorem shapeS_missing (mk : Bytes → HCall) : Rejects (shapeS mk []) := ⟨_, rfl⟩
theorem shapeS_null (mk : Bytes → HCall) (rest : List Msg) : Rejects (shapeS mk (.bulk none :: rest)) := ⟨_, rfl⟩

/-! ### `S S` -/
theorem shapeSS_ok (mk : Bytes → Bytes → HCall) (a b : Bytes) (rest : List Msg) :
    shapeSS mk (B a :: B b :: rest) = callRet (mk a b) := rfl
theorem shapeSS_missing0 (mk : Bytes → Bytes → HCall) : Rejects (shapeSS mk []) := ⟨_, rfl⟩
theorem shapeSS_missing1 (mk : Bytes → Bytes → HCall) (a : Bytes) : Rejects (shapeSS mk [B a]) := ⟨_, rfl⟩
theorem shapeSS_null0 (mk : Bytes → Bytes → HCall) (rest : List Msg) : Rejects (shapeSS mk (.bulk none :: rest)) := ⟨_, rfl⟩
theorem shapeSS_null1 (mk : Bytes → Bytes → HCall) (a : Bytes) (rest : List Msg) :
    Rejects (shapeSS mk (B a :: .bulk none :: rest)) := ⟨_, rfl⟩

/-! ### `S S S` -/
theorem shapeSSS_ok (mk : Bytes → Bytes → Bytes → HCall) (a b c : Bytes) (rest : List Msg) :
    shapeSSS mk (B a :: B b :: B c :: rest) = callRet (mk a b c) := rfl
theorem shapeSSS_missing0 (mk : Bytes → Bytes → Bytes → HCall) : Rejects (shapeSSS mk []) := ⟨_, rfl⟩
theorem shapeSSS_missing1 (mk : Bytes → Bytes → Bytes → HCall) (a : Bytes) : Rejects (shapeSSS mk [B a]) := ⟨_, rfl⟩
theorem shapeSSS_missing2 (mk : Bytes → Bytes → Bytes → HCall) (a b : Bytes) : Rejects (shapeSSS mk [B a, B b]) := ⟨_, rfl⟩
theorem shapeSSS_null0 (mk : Bytes → Bytes → Bytes → HCall) (rest : List Msg) :
    Rejects (shapeSSS mk (.bulk none :: rest)) := ⟨_, rfl⟩
theorem shapeSSS_null1 (mk : Bytes → Bytes → Bytes → HCall) (a : Bytes) (rest : List Msg) :
    Rejects (shapeSSS mk (B a :: .bulk none :: rest)) := ⟨_, rfl⟩
theorem shapeSSS_null2 (mk : Bytes → Bytes → Bytes → HCall) (a b : Bytes) (rest : List Msg) :
    Rejects (shapeSSS mk (B a :: B b :: .bulk none :: rest)) := ⟨_, rfl⟩

/-! ### `S I` -/
theorem shapeSI_ok (mk : Bytes → Int → HCall) (a tok : Bytes) (i : Int) (rest : List Msg) (h : atoi tok = some i) :
    shapeSI mk (B a :: B tok :: rest) = callRet (mk a i) := by
  simp [shapeSI, withArgs, nextInteger_B _ _ _ _ h]
theorem shapeSI_missing0 (mk : Bytes → Int → HCall) : Rejects (shapeSI mk []) := ⟨_, rfl⟩
theorem shapeSI_missing1 (mk : Bytes → Int → HCall) (a : Bytes) : Rejects (shapeSI mk [B a]) := ⟨_, rfl⟩
theorem shapeSI_null0 (mk : Bytes → Int → HCall) (rest : List Msg) : Rejects (shapeSI mk (.bulk none :: rest)) := ⟨_, rfl⟩
theorem shapeSI_null1 (mk : Bytes → Int → HCall) (a : Bytes) (rest : List Msg) :
    Rejects (shapeSI mk (B a :: .bulk none :: rest)) := ⟨_, rfl⟩
/-- a non-numeric, fractional or out-of-range token where an integer is required -/
theorem shapeSI_bad (mk : Bytes → Int → HCall) (a tok : Bytes) (rest : List Msg) (h : atoi tok = none) :
    Rejects (shapeSI mk (B a :: B tok :: rest)) :=
  by
    unfold Rejects; simp [shapeSI, withArgs, nextInteger_B_bad _ _ _ h]; exact ⟨_, rfl⟩

/-! ### `S I I` -/
theorem shapeSII_ok (mk : Bytes → Int → Int → HCall) (a t1 t2 : Bytes) (i j : Int) (rest : List Msg)
    (h1 : atoi t1 = some i) (h2 : atoi t2 = some j) :
    shapeSII mk (B a :: B t1 :: B t2 :: rest) = callRet (mk a i j) := by
  simp [shapeSII, withArgs, nextInteger_B _ _ _ _ h1, nextInteger_B _ _ _ _ h2]
theorem shapeSII_missing0 (mk : Bytes → Int → Int → HCall) : Rejects (shapeSII mk []) := ⟨_, rfl⟩
theorem shapeSII_missing1 (mk : Bytes → Int → Int → HCall) (a : Bytes) : Rejects (shapeSII mk [B a]) := ⟨_, rfl⟩
theorem shapeSII_missing2 (mk : Bytes → Int → Int → HCall) (a t1 : Bytes) (i : Int) (h1 : atoi t1 = some i) :
    Rejects (shapeSII mk [B a, B t1]) := by
    unfold Rejects; simp [shapeSII, withArgs, nextInteger_B _ _ _ _ h1]; exact ⟨_, rfl⟩
theorem shapeSII_null1 (mk : Bytes → Int → Int → HCall) (a : Bytes) (rest : List Msg) :
    Rejects (shapeSII mk (B a :: .bulk none :: rest)) := ⟨_, rfl⟩
theorem shapeSII_null2 (mk : Bytes → Int → Int → HCall) (a t1 : Bytes) (i : Int) (rest : List Msg) (h1 : atoi t1 = some i) :
    Rejects (shapeSII mk (B a :: B t1 :: .bulk none :: rest)) :=
  by
    unfold Rejects; simp [shapeSII, withArgs, nextInteger_B _ _ _ _ h1]; exact ⟨_, rfl⟩
theorem shapeSII_bad1 (mk : Bytes → Int → Int → HCall) (a tok : Bytes) (rest : List Msg) (h : atoi tok = none) :
    Rejects (shapeSII mk (B a :: B tok :: rest)) :=
  by
    unfold Rejects; simp [shapeSII, withArgs, nextInteger_B_bad _ _ _ h]; exact ⟨_, rfl⟩
theorem shapeSII_bad2 (mk : Bytes → Int → Int → HCall) (a t1 tok : Bytes) (i : Int) (rest : List Msg)
    (h1 : atoi t1 = some i) (h : atoi tok = none) :
    Rejects (shapeSII mk (B a :: B t1 :: B tok :: rest)) :=
  by
    unfold Rejects; simp [shapeSII, withArgs, nextInteger_B _ _ _ _ h1, nextInteger_B_bad _ _ _ h]; exact ⟨_, rfl⟩

/-! ### `S F S` -/
theorem shapeSFS_ok (pf : FloatOracle) (mk : Bytes → UInt64 → Bytes → HCall) (a tok c : Bytes) (v : UInt64)
    (rest : List Msg) (h : pf tok = some v) :
    shapeSFS pf mk (B a :: B tok :: B c :: rest) = callRet (mk a v c) := by
  simp [shapeSFS, withArgs, nextFloat_B _ _ _ _ _ h]
theorem shapeSFS_missing1 (pf : FloatOracle) (mk : Bytes → UInt64 → Bytes → HCall) (a : Bytes) :
    Rejects (shapeSFS pf mk [B a]) := ⟨_, rfl⟩
theorem shapeSFS_missing2 (pf : FloatOracle) (mk : Bytes → UInt64 → Bytes → HCall) (a tok : Bytes) (v : UInt64)
    (h : pf tok = some v) : Rejects (shapeSFS pf mk [B a, B tok]) :=
  by
    unfold Rejects; simp [shapeSFS, withArgs, nextFloat_B _ _ _ _ _ h]; exact ⟨_, rfl⟩
theorem shapeSFS_bad (pf : FloatOracle) (mk : Bytes → UInt64 → Bytes → HCall) (a tok : Bytes) (rest : List Msg)
    (h : pf tok = none) : Rejects (shapeSFS pf mk (B a :: B tok :: rest)) :=
  by
    unfold Rejects; simp [shapeSFS, withArgs, nextFloat_B_bad _ _ _ _ h]; exact ⟨_, rfl⟩
theorem shapeSFS_null1 (pf : FloatOracle) (mk : Bytes → UInt64 → Bytes → HCall) (a : Bytes) (rest : List Msg) :
    Rejects (shapeSFS pf mk (B a :: .bulk none :: rest)) := ⟨_, rfl⟩

/-! ### `S+` and `S S+` -/
theorem shapeL_ok (mk : List Bytes → HCall) (b : Bytes) (l : List Bytes) :
    shapeL mk ((b :: l).map B) = callRet (mk (b :: l)) := by
  simp only [shapeL, withArgs, nextStrings_B]
theorem shapeL_empty (mk : List Bytes → HCall) : Rejects (shapeL mk []) := ⟨_, rfl⟩
theorem shapeL_null (mk : List Bytes → HCall) (l : List Bytes) (rest : List Msg) :
    Rejects (shapeL mk (l.map B ++ .bulk none :: rest)) :=
  by
    unfold Rejects; simp only [shapeL, withArgs, nextStrings_null]; exact ⟨_, rfl⟩

theorem shapeSL_ok (mk : Bytes → List Bytes → HCall) (a b : Bytes) (l : List Bytes) :
    shapeSL mk (B a :: (b :: l).map B) = callRet (mk a (b :: l)) := by
  simp only [shapeSL, withArgs, nextString_B, nextStrings_B]
theorem shapeSL_missing0 (mk : Bytes → List Bytes → HCall) : Rejects (shapeSL mk []) := ⟨_, rfl⟩
theorem shapeSL_empty (mk : Bytes → List Bytes → HCall) (a : Bytes) : Rejects (shapeSL mk [B a]) := ⟨_, rfl⟩
theorem shapeSL_null (mk : Bytes → List Bytes → HCall) (a : Bytes) (l : List Bytes) (rest : List Msg) :
    Rejects (shapeSL mk (B a :: (l.map B ++ .bulk none :: rest))) :=
  by
    unfold Rejects; simp only [shapeSL, withArgs, nextString_B, nextStrings_null]; exact ⟨_, rfl⟩

end GoRedis
