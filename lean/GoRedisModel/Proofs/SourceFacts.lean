import GoRedisModel.Generated.Facts
import GoRedisModel.Model.Glob
import GoRedisModel.Model.Conn
import GoRedisModel.Model.Lifecycle
import GoRedisModel.Model.Exec
import GoRedisModel.Model.Discipline
/-! Facts regenerated from /repo's source (Generated/Facts.lean) compared with what the hand-written model
assumes.  Each theorem is re-checked on every run against the table `bin/extract` has just produced. -/
namespace GoRedis
open Generated

def bytesToString (b : Bytes) : String := String.ofList (b.map fun c => Char.ofNat c.toNat)

/-- the command names the model dispatches on -/
def modelCommandNames : List String :=
  (((userTable fun _ => none).map Prod.fst) ++ nestedNames ++ systemNames).map bytesToString

/-- the executor table of the source and the model's dispatch table name exactly the same commands -/
theorem source_commands_match_model :
    (registeredCommands.all fun n => modelCommandNames.contains n) = true ∧
    (modelCommandNames.all fun n => registeredCommands.contains n) = true := by
  constructor <;> decide +kernel

/-- the RESP type bytes of the source are the model's -/
theorem source_type_bytes_match_model :
    typeBytes = [("arrayMessageByte", "*"), ("bulkMessageByte", "$"), ("errorMessageByte", "-"),
                 ("integerMessageByte", ":"), ("stringMessageByte", "+")] := by decide

/-- the recover barrier is the first deferred call of the connection loop (it runs last, after the releases) -/
theorem source_recover_barrier : (factHolds "recoverBarrier" && factHolds "recoverBarrierFirst") = true := by decide

/-- closing the connection and removing it from the registry are deferred in the connection loop -/
theorem source_releases_deferred : (factHolds "deferClose" && factHolds "deferRemoveConn") = true := by decide

/-- the lifecycle control flow the transition system `LS` models: Stop = close listeners, wait for the accept
loops, close the connections, wait for their goroutines; accept loops close their own listener only; a connection
is registered before its goroutine is started and the TLS handshake runs inside that goroutine; the goroutines
Start spawns read no listener or TLS-configuration field of the server (they own the values they were started with) -/
theorem source_lifecycle_matches_transition_system : lifecycleFactsOK = true := by decide

/-- no method of the framework calls, while it holds a mutex of its receiver, a method of the same receiver that takes
the same mutex again (a recursive read lock deadlocks as soon as a writer arrives in between, and with it every client) -/
theorem source_no_reentrant_locking : factHolds "noReentrantLocking" = true := by decide

/-- the password gate of command dispatch: the authorization check precedes the single call of the executor, and its
only exemption is the AUTH command itself -/
theorem source_auth_gate : (factHolds "authGateBeforeExecutor" && factHolds "authGateExemptsOnlyAuth") = true := by decide

/-- command and option names are folded byte-wise for a-z only (`upperASCII`, the model's `upper`): no Unicode case
folding (`strings.ToUpper`, `ToLower`, `EqualFold`, `ToTitle`) anywhere in the framework's non-test sources -/
theorem source_ascii_case : factHolds "noUnicodeCaseFolding" = true := by decide

/-- the connection loop of the current source is the one `Model/Conn` was written from -/
theorem source_conn_loop_is_the_modelled_one :
    connLoopModelled.all (fun e => serverFingerprints.contains (e.1, e.2.1)) = true := by decide

/-- the lifecycle functions of the current source are the ones `Model/Lifecycle` and `Model/LifeSys` were written from -/
theorem source_lifecycle_is_the_modelled_one :
    lifecycleModelled.all (fun e => serverFingerprints.contains (e.1, e.2.1)) = true := by decide

/-- the glob translation of the current source is the one `Model/Glob` was written from -/
theorem source_glob_is_the_modelled_one :
    globModelled.all (fun e => serverFingerprints.contains (e.1, e.2.1)) = true := by decide

end GoRedis
