import GoRedisModel.Model.Conn
namespace GoRedis

/-- the whole effect of a command that maps onto one handler operation: its span, exactly one handler call,
and the handler's result as the outcome; connection and server state untouched -/
def singleCall (ucmd : Bytes) (c : HCall) (conn : ConnSt) (srv : SrvSt) : Prog (Out × ConnSt × SrvSt) :=
  .emit (.start ucmd) (.call c (fun r => .emit .finish (.ret (outOf r, conn, srv))))

/-- the whole effect of a rejected request: its span, no handler call, an error outcome; state untouched -/
def rejected (ucmd : Bytes) (e : Err) (conn : ConnSt) (srv : SrvSt) : Prog (Out × ConnSt × SrvSt) :=
  .emit (.start ucmd) (.emit .finish (.ret (.error e, conn, srv)))

theorem execSystem_none (srv : SrvSt) (conn : ConnSt) (u : Bytes) (args : List Msg)
    (h : u ∉ systemNames) : execSystem srv conn u args = none := by
  simp [systemNames] at h
  simp [execSystem, h]

/-- dispatch of a user-table command on an authorized connection with a handler installed -/
theorem dispatch_user (pf : FloatOracle) (srv : SrvSt) (conn : ConnSt) (cmd : Bytes) (args : List Msg) (ex : UExec)
    (hh : srv.hasHandler = true) (ha : conn.authorized = true)
    (hs : upper cmd ∉ systemNames) (hl : (userTable pf).lookup (upper cmd) = some ex) :
    executeCommand pf srv conn cmd args =
      (Prog.emit (.start (upper cmd)) ((ex args).lift.andFinish)).bind (fun o => .ret (o, conn, srv)) := by
  simp [executeCommand, hh, execSystem_none srv conn _ args hs, execUser, hl, gated, ha]

theorem dispatch_callRet (pf : FloatOracle) (srv : SrvSt) (conn : ConnSt) (cmd : Bytes) (args : List Msg) (ex : UExec) (c : HCall)
    (hh : srv.hasHandler = true) (ha : conn.authorized = true)
    (hs : upper cmd ∉ systemNames) (hl : (userTable pf).lookup (upper cmd) = some ex)
    (hx : ex args = callRet c) :
    executeCommand pf srv conn cmd args = singleCall (upper cmd) c conn srv := by
  rw [dispatch_user pf srv conn cmd args ex hh ha hs hl, hx]
  simp [callRet, UProg.lift, Prog.andFinish, Prog.bind, singleCall]

theorem dispatch_failE (pf : FloatOracle) (srv : SrvSt) (conn : ConnSt) (cmd : Bytes) (args : List Msg) (ex : UExec) (e : Err)
    (hh : srv.hasHandler = true) (ha : conn.authorized = true)
    (hs : upper cmd ∉ systemNames) (hl : (userTable pf).lookup (upper cmd) = some ex)
    (hx : ex args = failE e) :
    executeCommand pf srv conn cmd args = rejected (upper cmd) e conn srv := by
  rw [dispatch_user pf srv conn cmd args ex hh ha hs hl, hx]
  simp [failE, UProg.lift, Prog.andFinish, Prog.bind, rejected]

/-! ## Argument readers on well-formed and ill-formed elements -/

@[simp] theorem msgStr_B (b : Bytes) : msgStr (B b) = .ok b := rfl
@[simp] theorem msgStr_null : msgStr (.bulk none) = .error errNil := rfl
@[simp] theorem msgInt_B (b : Bytes) (i : Int) (h : atoi b = some i) : msgInt (B b) = .ok i := by
  simp [msgInt, B, h, Option.elim]
theorem msgInt_B_bad (b : Bytes) (h : atoi b = none) : msgInt (B b) = .error errAtoi := by
  simp [msgInt, B, h, Option.elim]
@[simp] theorem msgInt_null : msgInt (.bulk none) = .error errAtoi := rfl

@[simp] theorem nextString_B (w b : Bytes) (rest : List Msg) : nextString w (B b :: rest) = .ok (b, rest) := rfl
@[simp] theorem nextString_nil (w : Bytes) : nextString w [] = .error (errMissing w errEOM) := rfl
@[simp] theorem nextString_null (w : Bytes) (rest : List Msg) :
    nextString w (.bulk none :: rest) = .error (errMissing w errNil) := rfl
theorem nextInteger_B (w b : Bytes) (i : Int) (rest : List Msg) (h : atoi b = some i) :
    nextInteger w (B b :: rest) = .ok (i, rest) := by
  simp [nextInteger, nextIntegerRaw, B, msgInt, h, Option.elim]
theorem nextInteger_B_bad (w b : Bytes) (rest : List Msg) (h : atoi b = none) :
    nextInteger w (B b :: rest) = .error (errMissing w errAtoi) := by
  simp [nextInteger, nextIntegerRaw, B, msgInt, h, Option.elim]
@[simp] theorem nextInteger_nil (w : Bytes) : nextInteger w [] = .error (errMissing w errEOM) := rfl
@[simp] theorem nextInteger_null (w : Bytes) (rest : List Msg) :
    nextInteger w (.bulk none :: rest) = .error (errMissing w errAtoi) := rfl
theorem nextFloat_B (pf : FloatOracle) (w b : Bytes) (v : UInt64) (rest : List Msg) (h : pf b = some v) :
    nextFloat pf w (B b :: rest) = .ok (v, rest) := by
  simp [nextFloat, nextStringRaw, B, msgStr, h]
theorem nextFloat_B_bad (pf : FloatOracle) (w b : Bytes) (rest : List Msg) (h : pf b = none) :
    nextFloat pf w (B b :: rest) = .error (errMissing w errFloat) := by
  simp [nextFloat, nextStringRaw, B, msgStr, h]
@[simp] theorem nextFloat_nil (pf : FloatOracle) (w : Bytes) : nextFloat pf w [] = .error (errMissing w errEOM) := rfl
@[simp] theorem nextFloat_null (pf : FloatOracle) (w : Bytes) (rest : List Msg) :
    nextFloat pf w (.bulk none :: rest) = .error (errMissing w errNil) := rfl

/-- list arguments: order and content preserved exactly -/
theorem readStrings_B (l : List Bytes) : readStrings (l.map B) = .ok l := by
  induction l with
  | nil => rfl
  | cons b bs ih => simp [readStrings, B, msgStr] at ih ⊢; simp [ih]

theorem nextStrings_B (w : Bytes) (b : Bytes) (l : List Bytes) :
    nextStrings w ((b :: l).map B) = .ok (b :: l, []) := by
  have := readStrings_B (b :: l)
  simp only [nextStrings, this]

@[simp] theorem nextStrings_nil (w : Bytes) : nextStrings w [] = .error (errMissing w errEOM) := rfl

/-- a null anywhere in a list argument makes the whole list an error -/
theorem readStrings_null (l : List Bytes) (rest : List Msg) :
    readStrings (l.map B ++ .bulk none :: rest) = .error errNil := by
  induction l with
  | nil => rfl
  | cons b bs ih => simp [readStrings, B, msgStr] at ih ⊢; simp [ih]

theorem nextStrings_null (w : Bytes) (l : List Bytes) (rest : List Msg) :
    nextStrings w (l.map B ++ .bulk none :: rest) = .error (errMissing w errNil) := by
  simp [nextStrings, readStrings_null]

def pairMsgs : List (Bytes × Bytes) → List Msg
  | [] => []
  | (k, v) :: ps => B k :: B v :: pairMsgs ps

theorem readPairs_B (ps : List (Bytes × Bytes)) : readPairs (pairMsgs ps) = .ok ps := by
  induction ps with
  | nil => rfl
  | cons p ps ih => obtain ⟨k, v⟩ := p; simp [pairMsgs, readPairs, B, msgStr] at ih ⊢; simp [ih]

/-- a key without a value (dangling half) is an error -/
theorem readPairs_dangling (ps : List (Bytes × Bytes)) (k : Bytes) :
    ∃ e, readPairs (pairMsgs ps ++ [B k]) = .error e := by
  induction ps with
  | nil => exact ⟨_, rfl⟩
  | cons p ps ih =>
    obtain ⟨k', v'⟩ := p
    obtain ⟨e, he⟩ := ih
    refine ⟨e, ?_⟩
    simp [pairMsgs, readPairs, B, msgStr] at he ⊢
    simp [he]

theorem nextPairs_B (p : Bytes × Bytes) (ps : List (Bytes × Bytes)) :
    nextPairs (pairMsgs (p :: ps)) = .ok (mapOfPairs (p :: ps), []) := by
  simp [nextPairs, readPairs_B]

@[simp] theorem nextPairs_nil : nextPairs [] = .error (errMissing b!"key" errEOM) := rfl

theorem nextPairs_dangling (ps : List (Bytes × Bytes)) (k : Bytes) :
    ∃ e, nextPairs (pairMsgs ps ++ [B k]) = .error e := by
  obtain ⟨e, he⟩ := readPairs_dangling ps k
  exact ⟨e, by simp [nextPairs, he]⟩

/-- key/value lists: the last value given for a key is the one kept -/
theorem mapOfPairs_lookup (ps : List (Bytes × Bytes)) (k : Bytes) :
    (mapOfPairs ps).lookup k = (ps.reverse.lookup k) := by
  induction ps with
  | nil => rfl
  | cons p ps ih =>
    obtain ⟨k', v'⟩ := p
    simp only [mapOfPairs, List.reverse_cons]
    rw [List.lookup_append]
    cases hl : (mapOfPairs ps).lookup k' with
    | none =>
      simp only
      by_cases hk : k = k'
      · subst hk
        rw [← ih, hl]; simp [List.lookup]
      · have : (k == k') = false := by simp [hk]
        simp [List.lookup, this, ih]
    | some v'' =>
      simp only
      by_cases hk : k = k'
      · subst hk
        rw [← ih, hl]; simp [List.lookup]
      · have hne : (k == k') = false := by simp [hk]
        simp only [List.lookup, hne]
        have hf : (List.filter (fun p => p.1 != k') (mapOfPairs ps)).lookup k = (mapOfPairs ps).lookup k := by
          generalize mapOfPairs ps = l
          induction l with
          | nil => rfl
          | cons q qs ihq =>
            obtain ⟨a, b⟩ := q
            by_cases ha : a = k'
            · subst ha
              have : (k == a) = false := by simp [hk]
              simp [List.filter, List.lookup, this, ihq]
            · have hne' : (a != k') = true := by simp [ha]
              simp only [List.filter, hne', List.lookup]
              cases hka : k == a <;> simp [ihq]
        rw [hf, ih]
        cases ps.reverse.lookup k <;> simp

end GoRedis
