import GoRedisModel.Model.ExStore
/-! The example store's loops (`Model/ExStore`) compute what the reference store (`Model/RefStore`) specifies. -/
namespace GoRedis.Ex
open GoRedis

/-! ## index ranges -/

theorem clampRange_eq (len a b : Int) :
    (clampRange len a b).map (fun p => (p.1.toNat, p.2.toNat)) = rangeBounds len a b := by
  unfold clampRange rangeBounds normIdx
  simp only [Int.max_def, Int.min_def]
  by_cases h1 : a < 0 <;> by_cases h2 : b < 0 <;> simp only [h1, h2, if_true, if_false]
  all_goals
    (repeat' split) <;> first | omega | (simp_all; done) | (simp_all; omega)

theorem clampRange_bounds (len a b x y : Int) (h : clampRange len a b = some (x, y)) : 0 ≤ x ∧ x ≤ y := by
  unfold clampRange at h
  simp only at h
  (repeat' split at h)
  all_goals first
    | (simp only [Option.some.injEq, Prod.mk.injEq] at h
       obtain ⟨rfl, rfl⟩ := h
       omega)
    | (cases h)

/-- `List.Range` and the window of `ZSet.Range` are the reference store's `rangeSlice` -/
theorem range_eq {α : Type} (l : List α) (start stop : Int) : range l start stop = rangeSlice l start stop := by
  unfold range rangeSlice
  have h := clampRange_eq l.length start stop
  cases hc : clampRange (l.length : Int) start stop with
  | none => rw [hc] at h; simp at h; rw [← h]
  | some p =>
    obtain ⟨a, b⟩ := p
    rw [hc] at h
    simp only [Option.map_some] at h
    rw [← h]
    -- the bounds clampRange returns are non-negative and ordered
    have hb : 0 ≤ a ∧ a ≤ b := clampRange_bounds _ _ _ _ _ hc
    simp only [slice]
    congr 1
    omega

/-- `limitZSetMembers` is the reference store's `limitSlice` -/
theorem limit_eq {α : Type} (l : List α) (offset count : Int) : limit l offset count = limitSlice l offset count := by
  unfold limit limitSlice
  by_cases ho : offset < 0
  · simp [ho]
  · simp only [ho, false_or, if_false]
    by_cases hl : (l.length : Int) ≤ offset
    · have : l.drop offset.toNat = [] := List.drop_eq_nil_of_le (by omega)
      simp [hl, this]
    · simp only [hl, if_false]
      by_cases hc : count < 0
      · have : ¬ (0 ≤ count ∧ count < ((l.drop offset.toNat).length : Int)) := by omega
        simp [hc]
        intro h; omega
      · simp only [hc, if_false]
        split
        · rfl
        · rename_i hh
          exact (List.take_of_length_le (by simp only [List.length_drop] at hh ⊢; omega)).symm

/-- the selection of `ZSet.RangeByScore` is the reference store's `inBound` -/
theorem inScore_eq (lo hi : Bound) (loEx hiEx : Bool) (score : Int) :
    inScore lo hi loEx hiEx score = inBound lo hi loEx hiEx score := by
  unfold inScore inBound
  cases lo <;> cases hi <;> cases loEx <;> cases hiEx <;> simp <;>
    (try (rw [Bool.eq_iff_iff]
          simp only [Bool.and_eq_true, Bool.not_eq_true', decide_eq_true_eq, decide_eq_false_iff_not]
          omega))

theorem zRangeByScore_eq (cur : List (Int × Bytes)) (lo hi : Bound) (loEx hiEx : Bool) (offset count : Int) :
    zRangeByScore cur lo hi loEx hiEx offset count =
      limitSlice (cur.filter fun p => inBound lo hi loEx hiEx p.1) offset count := by
  unfold zRangeByScore
  rw [limit_eq]
  congr 1
  apply List.filter_congr
  intro p _
  exact inScore_eq lo hi loEx hiEx p.1

/-- without a LIMIT clause (offset 0, count -1) `ZSet.Range` is the reference store's window, REV included -/
theorem zRange_eq (cur : List (Int × Bytes)) (start stop : Int) (rev : Bool) :
    zRange cur start stop rev 0 (-1) = rangeSlice (if rev then cur.reverse else cur) start stop := by
  unfold zRange
  rw [limit_eq, range_eq]
  simp [limitSlice]

/-! ## lists -/

theorem lpopLoop_acc {α : Type} (n : Nat) (l acc : List α) : lpopLoop n l acc = (acc ++ l.take n, l.drop n) := by
  induction n generalizing l acc with
  | zero => simp [lpopLoop]
  | succ n ih =>
    cases l with
    | nil => simp [lpopLoop]
    | cons e es => simp [lpopLoop, ih]

/-- the loop of `List.LPop` pops `take n` and leaves `drop n` -/
theorem lpopLoop_eq {α : Type} (n : Nat) (l : List α) : lpopLoop n l [] = (l.take n, l.drop n) := by
  simp [lpopLoop_acc]

theorem rpopLoop_acc {α : Type} (n : Nat) (l acc : List α) :
    rpopLoop n l acc = (acc ++ l.reverse.take n, l.take (l.length - n)) := by
  induction n generalizing l acc with
  | zero => simp [rpopLoop]
  | succ n ih =>
    rcases List.eq_nil_or_concat l with rfl | ⟨init, e, rfl⟩
    · simp [rpopLoop]
    · rw [List.concat_eq_append]
      simp only [rpopLoop, List.getLast?_concat, List.dropLast_concat]
      rw [ih]
      simp only [List.reverse_append, List.reverse_cons, List.reverse_nil, List.nil_append, List.singleton_append,
        List.take_succ_cons, List.length_append, List.length_cons, List.length_nil, Nat.zero_add,
        Nat.add_sub_add_right, List.append_assoc]
      congr 1
      rw [List.take_append_of_le_length (by omega)]

/-- the loop of `List.RPop` pops the last `n` elements, last first, and leaves the rest -/
theorem rpopLoop_eq {α : Type} (n : Nat) (l : List α) :
    rpopLoop n l [] = (l.reverse.take n, l.take (l.length - n)) := by
  simp [rpopLoop_acc]

theorem lpush_eq {α : Type} (l es : List α) : lpush l es = es.reverse ++ l := by
  unfold lpush
  induction es generalizing l with
  | nil => rfl
  | cons e es ih => simp [List.foldl, ih]


/-- `List.Index` reads the element the reference store's one-element window selects -/
theorem index_eq {α : Type} (l : List α) (i : Int) : index l i = (rangeSlice l i i).head? := by
  unfold index rangeSlice rangeBounds normIdx
  simp only [Int.max_def, Int.min_def]
  generalize (if i < 0 then (l.length : Int) + i else i) = j
  by_cases h1 : j < 0
  · have e1 : ¬ (0 ≤ j) := by omega
    simp only [h1, true_or, if_true, e1, if_false]
    have e2 : (0 : Int) > (if (l.length : Int) - 1 ≤ j then (l.length : Int) - 1 else j) := by split <;> omega
    simp [e2]
  · have e1 : 0 ≤ j := by omega
    by_cases h2 : (l.length : Int) - 1 < j
    · have e2 : (l.length : Int) - 1 ≤ j := by omega
      have e3 : j > (l.length : Int) - 1 := by omega
      simp [h1, h2, e1, e2]
    · by_cases h3 : (l.length : Int) - 1 ≤ j
      · have e4 : j = (l.length : Int) - 1 := by omega
        have e5 : ¬ (j > (l.length : Int) - 1) := by omega
        simp only [h1, h2, or_self, if_false, e1, if_true, h3]
        have : j.toNat = ((l.length : Int) - 1).toNat := by rw [e4]
        simp [this, List.head?_take, List.head?_drop]
      · have e5 : ¬ (j > j) := by omega
        simp only [h1, h2, or_self, if_false, e1, if_true, h3, e5]
        simp [List.head?_take, List.head?_drop]

/-! ## splicing out the first hit -/

/-- when at most one element satisfies `p`, splicing out the first hit removes every hit -/
theorem spliceFirst_filter {α : Type} (p : α → Bool) (l : List α)
    (h : l.Pairwise fun x y => ¬ (p x = true ∧ p y = true)) :
    spliceFirst p l = (l.filter fun x => !p x, l.any p) := by
  induction l with
  | nil => rfl
  | cons x xs ih =>
    rw [List.pairwise_cons] at h
    simp only [spliceFirst]
    by_cases hx : p x = true
    · have hnone : ∀ y ∈ xs, p y = false := fun y hy => by
        have := h.1 y hy
        cases hpy : p y with
        | false => rfl
        | true => exact absurd ⟨hx, hpy⟩ this
      have : xs.filter (fun x => !p x) = xs := List.filter_eq_self.mpr fun y hy => by simp [hnone y hy]
      simp [hx, this]
    · have hx' : p x = false := by simpa using hx
      simp [hx', ih h.2]

/-- "one entry per member" as a pairwise statement about the predicate `member = m` -/
theorem distinct_pairwise (cur : List (Int × Bytes)) (h : (cur.map Prod.snd).Nodup) (m : Bytes) :
    cur.Pairwise fun x y => ¬ ((x.2 == m) = true ∧ (y.2 == m) = true) := by
  rw [List.Nodup, List.pairwise_map] at h
  refine h.imp ?_
  intro a b hab hh
  simp only [beq_iff_eq] at hh
  exact hab (hh.1.trans hh.2.symm)

/-! ## sorted sets -/

/-- the position loop and splice of `ZSet.Add` are the reference store's `zInsert` -/
theorem insertAtFirstGreater_eq (x : Int × Bytes) (l : List (Int × Bytes)) : insertAtFirstGreater x l = zInsert x l := by
  unfold insertAtFirstGreater
  induction l with
  | nil => simp [zInsert]
  | cons y ys ih =>
    simp only [zInsert, List.findIdx?_cons]
    by_cases hxy : zLt x y = true
    · simp [hxy]
    · have hxy' : zLt x y = false := by simpa using hxy
      simp only [hxy', Bool.false_eq_true, if_false]
      rw [← ih]
      cases hf : List.findIdx? (fun y => zLt x y) ys with
      | none => simp
      | some i => simp

/-- one round of `ZSet.Add` on a set with one entry per member: the old entry is gone, the new one sits where the
reference store puts it, and the member counts as new iff it had no entry -/
theorem zAddOne_eq (cur : List (Int × Bytes)) (x : Int × Bytes) (h : (cur.map Prod.snd).Nodup) :
    zAddOne cur x = (zInsert x (cur.filter fun q => q.2 != x.2), !(cur.any fun q => q.2 == x.2)) := by
  unfold zAddOne
  rw [spliceFirst_filter _ _ (distinct_pairwise cur h x.2)]
  simp only [insertAtFirstGreater_eq, bne]


theorem zInsert_perm (x : Int × Bytes) (l : List (Int × Bytes)) : (zInsert x l).Perm (x :: l) := by
  induction l with
  | nil => simp [zInsert]
  | cons y ys ih =>
    simp only [zInsert]
    split
    · exact List.Perm.refl _
    · exact (List.Perm.cons y ih).trans (List.Perm.swap x y ys)

/-- "one entry per member" is kept by a round of `ZSet.Add` -/
theorem distinct_zInsert (x : Int × Bytes) (cur : List (Int × Bytes)) (h : (cur.map Prod.snd).Nodup) :
    ((zInsert x (cur.filter fun q => q.2 != x.2)).map Prod.snd).Nodup := by
  have hp := (zInsert_perm x (cur.filter fun q => q.2 != x.2)).map Prod.snd
  rw [hp.nodup_iff, List.map_cons, List.nodup_cons]
  constructor
  · intro hm
    rw [List.mem_map] at hm
    obtain ⟨q, hq, hqx⟩ := hm
    rw [List.mem_filter] at hq
    simp [hqx] at hq
  · exact (List.filter_sublist.map Prod.snd).nodup h

/-- the reference store's round of ZADD on decoded scores (`refHandle`, case `.zadd`) -/
def refZAddStep (acc : Int × List (Int × Bytes)) (x : Int × Bytes) : Int × List (Int × Bytes) :=
  let isNew := !(acc.2.any fun q => q.2 == x.2)
  (if isNew then acc.1 + 1 else acc.1, zInsert x (acc.2.filter fun q => q.2 != x.2))

theorem zAdd_fold (xs : List (Int × Bytes)) (cur : List (Int × Bytes)) (n : Nat) (h : (cur.map Prod.snd).Nodup) :
    (xs.foldl (fun (acc : List (Int × Bytes) × Nat) x =>
        let r := zAddOne acc.1 x
        (r.1, if r.2 then acc.2 + 1 else acc.2)) (cur, n)).1 = (xs.foldl refZAddStep ((n : Int), cur)).2 ∧
    (((xs.foldl (fun (acc : List (Int × Bytes) × Nat) x =>
        let r := zAddOne acc.1 x
        (r.1, if r.2 then acc.2 + 1 else acc.2)) (cur, n)).2 : Nat) : Int) = (xs.foldl refZAddStep ((n : Int), cur)).1 := by
  induction xs generalizing cur n with
  | nil => simp
  | cons x xs ih =>
    simp only [List.foldl_cons, zAddOne_eq cur x h, refZAddStep]
    cases hnew : (cur.any fun q => q.2 == x.2) with
    | true =>
      simp only [Bool.not_true, Bool.false_eq_true, if_false]
      exact ih _ n (distinct_zInsert x cur h)
    | false =>
      simp only [Bool.not_false, if_true]
      have := ih (zInsert x (cur.filter fun q => q.2 != x.2)) (n + 1) (distinct_zInsert x cur h)
      simpa using this

/-- **`ZSet.Add` refines the reference store's ZADD**: on a sorted set with one entry per member, for every list of
(score, member) pairs, the loops of zset.go leave the entries the reference store defines, report the same number of
new members, and keep "one entry per member" -/
theorem zAdd_eq (cur xs : List (Int × Bytes)) (h : (cur.map Prod.snd).Nodup) :
    (zAdd cur xs).1 = (xs.foldl refZAddStep (0, cur)).2 ∧ ((zAdd cur xs).2 : Int) = (xs.foldl refZAddStep (0, cur)).1 := by
  have := zAdd_fold xs cur 0 h
  simpa [zAdd] using this

theorem refZAdd_distinct (xs : List (Int × Bytes)) (acc : Int × List (Int × Bytes)) (h : (acc.2.map Prod.snd).Nodup) :
    ((xs.foldl refZAddStep acc).2.map Prod.snd).Nodup := by
  induction xs generalizing acc with
  | nil => exact h
  | cons x xs ih => exact ih _ (distinct_zInsert x acc.2 h)

/-! ## removing members: `Set.Rem`, `ZSet.Rem` -/

/-- removing members one at a time by splicing out the first hit: what is left are the entries whose key is not in
the list, and the count is the number of entries that went -/
theorem remLoop_eq {α : Type} (key : α → Bytes) (ms : List Bytes) (cur : List α) (n : Nat)
    (h : (cur.map key).Nodup) :
    ms.foldl (fun (acc : List α × Nat) m =>
        let r := spliceFirst (fun q => key q == m) acc.1
        (r.1, if r.2 then acc.2 + 1 else acc.2)) (cur, n) =
      (cur.filter fun q => !ms.contains (key q), n + (cur.filter fun q => ms.contains (key q)).length) := by
  induction ms generalizing cur n with
  | nil =>
    have : cur.filter (fun _ => true) = cur := List.filter_eq_self.mpr (by simp)
    simp [this]
  | cons m ms ih =>
    have hpw : cur.Pairwise fun x y => ¬ ((key x == m) = true ∧ (key y == m) = true) := by
      rw [List.Nodup, List.pairwise_map] at h
      refine h.imp ?_
      intro a b hab hh
      simp only [beq_iff_eq] at hh
      exact hab (hh.1.trans hh.2.symm)
    simp only [List.foldl_cons, spliceFirst_filter _ _ hpw]
    have hsub : ((cur.filter fun q => !(key q == m)).map key).Nodup := (List.filter_sublist.map key).nodup h
    rw [ih _ _ hsub]
    have hcount : (if (cur.any fun q => key q == m) = true then n + 1 else n) =
        n + (cur.filter fun q => key q == m).length := by
      have hle : (cur.filter fun q => key q == m).length ≤ 1 := by
        have hnd : ((cur.filter fun q => key q == m).map key).Nodup := (List.filter_sublist.map key).nodup h
        match hf : cur.filter (fun q => key q == m) with
        | [] => simp
        | [_] => simp
        | a :: b :: rest =>
          exfalso
          have ha : a ∈ cur.filter (fun q => key q == m) := by rw [hf]; simp
          have hb : b ∈ cur.filter (fun q => key q == m) := by rw [hf]; simp
          rw [List.mem_filter] at ha hb
          rw [hf] at hnd
          simp only [List.map_cons, List.nodup_cons, List.mem_cons, not_or] at hnd
          have e1 : key a = m := by simpa using ha.2
          have e2 : key b = m := by simpa using hb.2
          exact hnd.1.1 (e1.trans e2.symm)
      cases hany : (cur.any fun q => key q == m) with
      | true =>
        have : 0 < (cur.filter fun q => key q == m).length := by
          rw [List.length_pos_iff, ne_eq, List.filter_eq_nil_iff]
          intro hall
          rw [List.any_eq_true] at hany
          obtain ⟨q, hq, hqm⟩ := hany
          exact hall q hq hqm
        simp only [if_true]; omega
      | false =>
        have : (cur.filter fun q => key q == m) = [] := by
          rw [List.filter_eq_nil_iff]
          intro q hq hqm
          have : (cur.any fun q => key q == m) = true := List.any_eq_true.mpr ⟨q, hq, hqm⟩
          rw [hany] at this
          exact absurd this (by simp)
        simp [this]
    rw [hcount, List.filter_filter]
    congr 1
    · apply List.filter_congr
      intro q _
      simp only [List.contains_cons, Bool.not_or, Bool.and_comm]
      try (cases (key q == m) <;> simp [eq_comm])
    · -- the entries that went: those equal to m, plus those among the rest
      rw [List.filter_filter]
      have hsplit : ∀ (l : List α), (l.filter fun q => (key q == m || ms.contains (key q))).length =
          (l.filter fun q => key q == m).length + (l.filter fun q => ms.contains (key q) && !(key q == m)).length := by
        intro l
        induction l with
        | nil => simp
        | cons a as iha =>
          cases h1 : (key a == m) <;> cases h2 : ms.contains (key a) <;>
            simp only [List.filter_cons, h1, h2, Bool.or_self, Bool.or_true, Bool.true_or, Bool.and_self, Bool.and_true,
              Bool.and_false, Bool.not_true, Bool.not_false, Bool.false_eq_true, if_true, if_false,
              List.length_cons] <;> omega
      have hcons : (cur.filter fun q => (m :: ms).contains (key q)) = cur.filter fun q => (key q == m || ms.contains (key q)) := by
        apply List.filter_congr
        intro q _
        simp only [List.contains_cons]
        try (cases (key q == m) <;> simp [eq_comm])
      rw [hcons, hsplit cur, Nat.add_assoc]


/-- **`Set.Rem` refines the reference store's SREM** on a set without duplicates -/
theorem setRem_eq (cur ms : List Bytes) (h : cur.Nodup) :
    setRem cur ms = (cur.filter fun x => !ms.contains x, (cur.filter fun x => ms.contains x).length) := by
  have := remLoop_eq (fun x : Bytes => x) ms cur 0 (by simpa using h)
  simpa [setRem] using this

/-- **`ZSet.Rem` refines the reference store's ZREM** on a sorted set with one entry per member -/
theorem zRem_eq (cur : List (Int × Bytes)) (ms : List Bytes) (h : (cur.map Prod.snd).Nodup) :
    zRem cur ms = (cur.filter fun q => !ms.contains q.2, (cur.filter fun q => ms.contains q.2).length) := by
  have := remLoop_eq (fun q : Int × Bytes => q.2) ms cur 0 h
  simpa [zRem] using this

/-! ## `Set.Add` -/

/-- the members `Set.Add` appends, in order: every member that is neither in the set nor earlier in the request -/
def freshMembers (cur : List Bytes) : List Bytes → List Bytes
  | [] => []
  | m :: ms => if cur.contains m then freshMembers cur ms else m :: freshMembers (cur ++ [m]) ms

theorem setAdd_fold (ms cur : List Bytes) (n : Nat) :
    ms.foldl (fun (acc : List Bytes × Nat) m => if acc.1.contains m then acc else (acc.1 ++ [m], acc.2 + 1)) (cur, n) =
      (cur ++ freshMembers cur ms, n + (freshMembers cur ms).length) := by
  induction ms generalizing cur n with
  | nil => simp [freshMembers]
  | cons m ms ih =>
    simp only [List.foldl_cons, freshMembers]
    by_cases hc : cur.contains m = true
    · simp only [hc, if_true]
      exact ih cur n
    · simp only [hc, Bool.false_eq_true, if_false]
      rw [ih]
      simp only [List.append_assoc, List.singleton_append, List.length_cons]
      congr 1
      omega

/-- `Set.Add` keeps a set free of duplicates, and reports how many members it appended -/
theorem setAdd_eq (cur ms : List Bytes) : setAdd cur ms = (cur ++ freshMembers cur ms, (freshMembers cur ms).length) := by
  have := setAdd_fold ms cur 0
  simpa [setAdd] using this

theorem freshMembers_nodup (cur ms : List Bytes) (h : cur.Nodup) : (cur ++ freshMembers cur ms).Nodup := by
  induction ms generalizing cur with
  | nil => simpa [freshMembers] using h
  | cons m ms ih =>
    simp only [freshMembers]
    by_cases hc : cur.contains m = true
    · simp only [hc, if_true]
      exact ih cur h
    · simp only [hc, Bool.false_eq_true, if_false]
      have hm : m ∉ cur := by simpa using hc
      have h' : (cur ++ [m]).Nodup := by
        rw [List.nodup_append]
        refine ⟨h, by simp, ?_⟩
        intro a ha b hb hab
        simp at hb
        subst hb; subst hab
        exact hm ha
      have := ih (cur ++ [m]) h'
      simpa [List.append_assoc] using this


/-! ## the reference store's formulation of "the members that go" -/

theorem mem_dedup (l : List Bytes) (y : Bytes) : y ∈ dedup l ↔ y ∈ l := by
  induction l with
  | nil => simp [dedup]
  | cons a as iha =>
    simp only [dedup]
    split
    · rename_i hc
      simp at hc
      constructor
      · intro hy; exact List.mem_cons_of_mem _ (iha.mp hy)
      · intro hy
        simp at hy
        rcases hy with rfl | hy
        · exact iha.mpr hc
        · exact iha.mpr hy
    · simp [iha]

theorem dedup_nodup' (l : List Bytes) : (dedup l).Nodup := by
  induction l with
  | nil => simp [dedup]
  | cons x xs ih =>
    simp only [dedup]
    split
    · exact ih
    · rename_i hx
      refine List.nodup_cons.mpr ⟨?_, ih⟩
      intro hmem
      simp at hx
      exact hx ((mem_dedup xs x).mp hmem)

/-- the reference store's "members that go" (`gone`) against the plain description used by the loops -/
theorem gone_filter {α : Type} (key : α → Bytes) (cur : List α) (ms : List Bytes) :
    (cur.filter fun q => !((dedup ms).filter fun m => (cur.map key).contains m).contains (key q)) =
      cur.filter fun q => !ms.contains (key q) := by
  apply List.filter_congr
  intro q hq
  congr 1
  rw [Bool.eq_iff_iff]
  simp only [List.contains_iff_mem, List.mem_filter, mem_dedup, List.mem_map]
  constructor
  · exact fun h => h.1
  · exact fun h => ⟨h, q, hq, rfl⟩

theorem gone_length {α : Type} (key : α → Bytes) (cur : List α) (ms : List Bytes) (h : (cur.map key).Nodup) :
    ((dedup ms).filter fun m => (cur.map key).contains m).length = (cur.filter fun q => ms.contains (key q)).length := by
  have h1 : ((dedup ms).filter fun m => (cur.map key).contains m).Nodup := (dedup_nodup' ms).filter _
  have h2 : ((cur.filter fun q => ms.contains (key q)).map key).Nodup := (List.filter_sublist.map key).nodup h
  rw [← List.length_map (f := key) (as := cur.filter fun q => ms.contains (key q))]
  apply List.Perm.length_eq
  rw [List.perm_ext_iff_of_nodup h1 h2]
  intro a
  simp only [List.mem_filter, mem_dedup, List.contains_iff_mem, List.mem_map]
  constructor
  · rintro ⟨ha, q, hq, rfl⟩
    exact ⟨q, ⟨hq, ha⟩, rfl⟩
  · rintro ⟨q, ⟨hq, ha⟩, rfl⟩
    exact ⟨ha, q, hq, rfl⟩


/-- the reference store's ZADD fold over raw pairs is the fold over the decoded pairs -/
theorem zaddStep_fold (sc : ScoreTable) (ms : List (UInt64 × Bytes)) (acc : Int × List (Int × Bytes)) :
    ms.foldl (zaddStep sc) acc = (decodeScores sc ms).foldl refZAddStep acc := by
  induction ms generalizing acc with
  | nil => rfl
  | cons p ps ih =>
    simp only [List.foldl_cons, decodeScores, List.filterMap_cons]
    cases hsc : sc p.1 with
    | none => simp only [zaddStep, hsc]; exact ih acc
    | some b =>
      cases b with
      | fin h => simp only [zaddStep, hsc, List.foldl_cons, refZAddStep]; exact ih _
      | posInf => simp only [zaddStep, hsc]; exact ih acc
      | negInf => simp only [zaddStep, hsc]; exact ih acc


/-! ## `ZSet.Score`, `ZSet.IncBy` -/

theorem zScore_eq (cur : List (Int × Bytes)) (m : Bytes) : zScore cur m = (cur.find? fun q => q.2 == m).map Prod.fst := by
  induction cur with
  | nil => rfl
  | cons q qs ih =>
    simp only [zScore, List.find?_cons]
    cases h : (q.2 == m) <;> simp [ih]

/-- **`ZSet.IncBy` refines the reference store's ZINCRBY** -/
theorem zIncBy_eq (cur : List (Int × Bytes)) (d : Int) (m : Bytes) (h : (cur.map Prod.snd).Nodup) :
    zIncBy cur d m =
      (zInsert ((cur.find? fun q => q.2 == m).elim 0 Prod.fst + d, m) (cur.filter fun q => q.2 != m),
       (cur.find? fun q => q.2 == m).elim 0 Prod.fst + d) := by
  have hold : (zScore cur m).getD 0 = (cur.find? fun q => q.2 == m).elim 0 Prod.fst := by
    rw [zScore_eq]
    cases (cur.find? fun q => q.2 == m) <;> rfl
  unfold zIncBy
  rw [hold, spliceFirst_filter _ _ (distinct_pairwise cur h m)]
  have hsub : ((cur.filter fun q => !(q.2 == m)).map Prod.snd).Nodup := (List.filter_sublist.map Prod.snd).nodup h
  simp only [zAddOne_eq _ _ hsub, List.filter_filter, bne, Bool.and_self]

/-! ## hash.go -/

theorem lookup_filter_ne (h : GoMap) (f g : Bytes) :
    ((h.filter (fun p => !(p.1 == f))).lookup g).isSome = (!(g == f) && (h.lookup g).isSome) := by
  induction h with
  | nil => simp
  | cons p ps ih =>
    obtain ⟨a, b⟩ := p
    by_cases hp : a = f
    · subst hp
      by_cases hg : g = a
      · subst hg; simp [List.filter_cons, ih]
      · have hb : (g == a) = false := by simp [hg]
        simp only [List.filter_cons, beq_self_eq_true, Bool.not_true, Bool.false_eq_true, if_false, ih, List.lookup_cons, hb]
    · by_cases hg : g = a
      · subst hg
        have hb : (g == f) = false := by simp [hp]
        simp [List.filter_cons, hp, List.lookup_cons, hb]
      · have hb : (g == a) = false := by simp [hg]
        have hc : (a == f) = false := by simp [hp]
        simp only [List.filter_cons, hc, Bool.not_false, if_true, List.lookup_cons, hb, ih]

theorem absent_ne (h : GoMap) (f : Bytes) (ha : (h.lookup f).isSome = false) : ∀ p ∈ h, (p.1 == f) = false := by
  induction h with
  | nil => simp
  | cons p ps ih =>
    obtain ⟨a, b⟩ := p
    by_cases hf : f = a
    · subst hf; simp [List.lookup_cons] at ha
    · have hb : (f == a) = false := by simp [hf]
      simp only [List.lookup_cons, hb] at ha
      intro q hq
      simp only [List.mem_cons] at hq
      rcases hq with rfl | hq
      · simp; exact fun e => hf e.symm
      · exact ih ha q hq

theorem filter_ne_of_not_mem (l : List Bytes) (f : Bytes) (P : Bytes → Bool) (hf : f ∉ l) :
    l.filter (fun g => !(g == f) && P g) = l.filter P := by
  apply List.filter_congr
  intro g hg
  have : g ≠ f := fun e => hf (e ▸ hg)
  simp [this]

theorem count_split (l : List Bytes) (f : Bytes) (P : Bytes → Bool) (hn : l.Nodup) (hf : f ∈ l) (hP : P f = true) :
    (l.filter P).length = (l.filter (fun g => !(g == f) && P g)).length + 1 := by
  induction l with
  | nil => simp at hf
  | cons a as ih =>
    have hna := List.nodup_cons.mp hn
    by_cases ha : a = f
    · subst ha
      rw [List.filter_cons, List.filter_cons]
      simp only [hP, if_true, beq_self_eq_true, Bool.not_true, Bool.false_and, Bool.false_eq_true, if_false, List.length_cons]
      rw [filter_ne_of_not_mem as a P hna.1]
    · have hfa : f ∈ as := by
        simp only [List.mem_cons] at hf
        rcases hf with rfl | hf
        · exact absurd rfl ha
        · exact hf
      have hb : (a == f) = false := by simp [ha]
      rw [List.filter_cons, List.filter_cons]
      simp only [hb, Bool.not_false, Bool.true_and]
      by_cases hPa : P a = true
      · simp only [hPa, if_true, List.length_cons, ih hna.2 hfa]
      · have hPa' : P a = false := by simpa using hPa
        simp only [hPa', Bool.false_eq_true, if_false, ih hna.2 hfa]

theorem hashDel_fold (fs : List Bytes) (h : GoMap) (n : Nat) :
    fs.foldl (fun (acc : GoMap × Nat) f =>
      if (acc.1.lookup f).isSome then (mapDelete acc.1 f, acc.2 + 1) else acc) (h, n) =
    (h.filter (fun p => !fs.contains p.1), n + ((dedup fs).filter (fun f => (h.lookup f).isSome)).length) := by
  induction fs generalizing h n with
  | nil =>
    have : h.filter (fun _ => true) = h := List.filter_eq_self.mpr (by simp)
    simp [dedup, this]
  | cons f fs ih =>
    simp only [List.foldl_cons]
    by_cases hp : (h.lookup f).isSome = true
    · simp only [hp, if_true]
      rw [ih]
      congr 1
      · simp only [mapDelete, List.filter_filter]
        apply List.filter_congr
        intro p _
        by_cases e : p.1 = f <;> simp [e, List.contains_cons]
      · have hfun : (fun g => ((mapDelete h f).lookup g).isSome) = (fun g => !(g == f) && (h.lookup g).isSome) := by
          funext g; exact lookup_filter_ne h f g
        rw [hfun]
        simp only [dedup]
        by_cases hc : fs.contains f = true
        · simp only [hc, if_true]
          have hm : f ∈ dedup fs := (mem_dedup fs f).mpr (by simpa using hc)
          rw [count_split (dedup fs) f (fun g => (h.lookup g).isSome) (dedup_nodup' fs) hm hp]
          omega
        · have hc' : fs.contains f = false := by simpa using hc
          simp only [hc', Bool.false_eq_true, if_false]
          have hm : f ∉ dedup fs := fun hm => hc (by simpa using (mem_dedup fs f).mp hm)
          rw [List.filter_cons]
          simp only [hp, if_true, List.length_cons]
          rw [filter_ne_of_not_mem (dedup fs) f _ hm]
          omega
    · have hp' : (h.lookup f).isSome = false := by
        cases hq : (h.lookup f).isSome
        · rfl
        · exact absurd hq hp
      simp only [hp', Bool.false_eq_true, if_false]
      rw [ih]
      congr 1
      · apply List.filter_congr
        intro p hpm
        have := absent_ne h f hp' p hpm
        have hne : p.1 ≠ f := by simpa using this
        simp [List.contains_cons, hne]
      · simp only [dedup]
        by_cases hc : fs.contains f = true
        · simp only [hc, if_true]
        · have hc' : fs.contains f = false := by simpa using hc
          simp only [hc', Bool.false_eq_true, if_false]
          rw [List.filter_cons]
          simp only [hp', Bool.false_eq_true, if_false]

theorem mem_lookup_isSome (h : GoMap) (p : Bytes × Bytes) (hp : p ∈ h) : (h.lookup p.1).isSome = true := by
  cases hq : (h.lookup p.1).isSome
  · have := absent_ne h p.1 hq p hp
    simp at this
  · rfl

theorem hashSet_eq (h : GoMap) (f v : Bytes) (nx : Bool) :
    hashSet h f v nx = (match h.lookup f with
      | some _ => if nx then (h, 0) else (h.map (fun p => if p.1 == f then (f, v) else p), 0)
      | none => (h ++ [(f, v)], 1)) := by
  unfold hashSet mapAssign
  cases hl : h.lookup f <;> cases nx <;> simp

theorem hashDel_eq (h : GoMap) (fields : List Bytes) :
    hashDel h fields =
      (let gone := (dedup fields).filter fun f => (h.lookup f).isSome
       (h.filter fun p => !gone.contains p.1, gone.length)) := by
  unfold hashDel
  rw [hashDel_fold]
  simp only [Nat.zero_add]
  congr 1
  apply List.filter_congr
  intro p hp
  have hs := mem_lookup_isSome h p hp
  congr 1
  apply Bool.eq_iff_iff.mpr
  simp only [List.contains_iff_mem, List.mem_filter, mem_dedup, hs, and_true]

end GoRedis.Ex
