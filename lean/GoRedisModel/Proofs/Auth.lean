import GoRedisModel.Proofs.Loop
namespace GoRedis

/-- a program that never calls the application's handler -/
inductive NoCall {α : Type} : Prog α → Prop
  | ret (a : α) : NoCall (.ret a)
  | panic : NoCall .panic
  | emit (s : SpanOp) (k : Prog α) : NoCall k → NoCall (.emit s k)

def Ev.isCall : Ev → Bool
  | .hcall _ _ => true
  | _ => false

theorem noCall_run {α : Type} (p : Prog α) (h : NoCall p) (view : ConnSt) (s : List HRes) :
    ∀ e ∈ (p.run view s).1, e.isCall = false := by
  induction h with
  | ret a => simp [Prog.run]
  | panic => simp [Prog.run]
  | emit op k _ ih =>
    intro e he
    simp only [Prog.run] at he
    simp at he
    rcases he with rfl | he
    · cases op <;> rfl
    · exact ih e he

theorem noCall_bind {α β : Type} (p : Prog α) (f : α → Prog β) (hp : NoCall p) (hf : ∀ a, NoCall (f a)) :
    NoCall (p.bind f) := by
  induction hp with
  | ret a => exact hf a
  | panic => exact .panic
  | emit s k _ ih => exact .emit s _ ih

/-- every returning path of a program ends in a result satisfying `P` -/
inductive Post {α : Type} (P : α → Prop) : Prog α → Prop
  | ret (a : α) : P a → Post P (.ret a)
  | panic : Post P .panic
  | emit (s : SpanOp) (k : Prog α) : Post P k → Post P (.emit s k)
  | call (c : HCall) (k : HRes → Prog α) : (∀ r, Post P (k r)) → Post P (.call c k)

theorem post_run {α : Type} (P : α → Prop) (p : Prog α) (h : Post P p) (view : ConnSt) (s : List HRes) (a : α)
    (hr : (p.run view s).2.1 = some a) : P a := by
  induction h generalizing s with
  | ret a' ha => simp [Prog.run] at hr; rw [← hr]; exact ha
  | panic => simp [Prog.run] at hr
  | emit op k _ ih => simp only [Prog.run] at hr; exact ih s hr
  | call c k _ ih => simp only [Prog.run] at hr; exact ih _ _ hr

theorem post_bind {α β : Type} (P : β → Prop) (p : Prog α) (f : α → Prog β) (hf : ∀ a, Post P (f a)) :
    Post P (p.bind f) := by
  induction p with
  | ret a => exact hf a
  | panic => exact .panic
  | emit s k ih => exact .emit s _ ih
  | call c k ih => exact .call c _ ih

/-- the request is AUTH (any letter case) whose decoded credentials are exactly: no user name, password `pw` -/
def IsExactAuth (pw : Bytes) (cmd : Bytes) (args : List Msg) : Prop :=
  upper cmd = b!"AUTH" ∧ authCreds args = .ok ([], pw)

theorem execSystem_none_ne_auth (srv : SrvSt) (conn : ConnSt) (u : Bytes) (args : List Msg)
    (h : execSystem srv conn u args = none) : u ≠ b!"AUTH" := by
  intro e; subst e; simp [execSystem] at h

/-- **The gate**: on a connection that is not authorized no command reaches the application's handler,
whatever the command, its arguments and the server state. -/
theorem executeCommand_unauthorized_noCall (pf : FloatOracle) (srv : SrvSt) (conn : ConnSt) (cmd : Bytes) (args : List Msg)
    (hu : conn.authorized = false) : NoCall (executeCommand pf srv conn cmd args) := by
  have hret : ∀ (x : Out × ConnSt × SrvSt), NoCall (Prog.ret x) := fun x => .ret x
  have hgate : ∀ (u : Bytes) (body : Prog Out), u ≠ b!"AUTH" → NoCall (gated conn u body) := by
    intro u body hne
    have : (u != b!"AUTH") = true := by simp [hne]
    simp only [gated, hu, Bool.not_false, this, Bool.and_self, if_true]
    exact .emit _ _ (.emit _ _ (.ret _))
  unfold executeCommand
  simp only
  split
  · exact .ret _
  · split
    · apply NoCall.emit
      split
      · exact .emit _ _ (.ret _)
      · exact .emit _ _ (.ret _)
    · rename_i hsys
      have hne := execSystem_none_ne_auth _ _ _ _ hsys
      split
      · rename_i p hp
        apply noCall_bind _ _ _ (fun _ => .ret _)
        unfold execUser at hp
        split at hp
        · simp at hp
        · simp at hp
          rw [← hp]
          split
          · exact .ret _
          · exact hgate _ _ hne
      · split
        · exact noCall_bind _ _ (hgate _ _ hne) (fun _ => .ret _)
        · split
          · exact noCall_bind _ _ (hgate _ _ hne) (fun _ => .ret _)
          · split
            · exact noCall_bind _ _ (hgate _ _ hne) (fun _ => .ret _)
            · exact .ret _

theorem handleArray_unauthorized_noCall (pf : FloatOracle) (srv : SrvSt) (conn : ConnSt) (f : Nat) (es : List Msg)
    (hu : conn.authorized = false) : NoCall (handleArray pf srv conn f es) := by
  induction f generalizing es with
  | zero => unfold handleArray; exact .ret _
  | succ f ih =>
    cases es with
    | nil => simp only [handleArray]; exact .ret _
    | cons first rest =>
      cases first with
      | absent => simp only [handleArray]; exact .ret _
      | arr es' => simp only [handleArray]; exact ih _
      | arrNil => simp only [handleArray]; exact .panic
      | line t p =>
        simp only [handleArray]
        split
        · exact .ret _
        · exact executeCommand_unauthorized_noCall pf srv conn _ _ hu
      | bulk p =>
        simp only [handleArray]
        split
        · exact .ret _
        · exact executeCommand_unauthorized_noCall pf srv conn _ _ hu

theorem handleMessage_unauthorized_noCall (pf : FloatOracle) (srv : SrvSt) (conn : ConnSt) (m : Msg)
    (hu : conn.authorized = false) : NoCall (handleMessage pf srv conn m) := by
  unfold handleMessage
  split
  · exact handleArray_unauthorized_noCall pf srv conn _ _ hu
  · exact .ret _

/-- the (command, arguments) pair `handleArrayMessage` ends up dispatching for a request value, if any -/
def dispatchedOf : Nat → List Msg → Option (Bytes × List Msg)
  | 0, _ => none
  | _+1, [] => none
  | _+1, .absent :: _ => none
  | f+1, .arr es :: _ => dispatchedOf f es
  | _+1, .arrNil :: _ => none
  | _+1, first :: rest => match msgStr first with
    | .error _ => none
    | .ok cmd => some (cmd, rest)

def dispatched (m : Msg) : Option (Bytes × List Msg) :=
  match m with
  | .arr es => dispatchedOf (depth m + 1) es
  | _ => none

/-- the request is an AUTH carrying exactly the configured password (and no or an empty user name) -/
def ExactAuthReq (pw : Bytes) (m : Msg) : Prop := ∃ cmd args, dispatched m = some (cmd, args) ∧ IsExactAuth pw cmd args

/-- what one request may do to the state that matters for the gate -/
structure GateStep (pw : Bytes) (srv : SrvSt) (conn : ConnSt) (exact : Prop) (x : Out × ConnSt × SrvSt) : Prop where
  authPw : x.2.2.authPw = srv.authPw
  certAuth : x.2.2.certAuth = srv.certAuth
  handler : x.2.2.hasHandler = srv.hasHandler
  /-- authorization is only ever *acquired* through an exact AUTH, and never lost -/
  gain : x.2.1.authorized = true → conn.authorized = true ∨ exact
  keep : conn.authorized = true → x.2.1.authorized = true

theorem gateStep_same (pw : Bytes) (srv : SrvSt) (conn : ConnSt) (exact : Prop) (o : Out) :
    GateStep pw srv conn exact (o, conn, srv) :=
  ⟨rfl, rfl, rfl, fun h => Or.inl h, fun h => h⟩

theorem authenticate_exact (srv : SrvSt) (pw user pass : Bytes) (conn : ConnSt) (hpw : srv.authPw = some pw)
    (h : authenticate srv { conn with user := user, pass := pass, hasPass := true } = true) :
    user = [] ∧ pass = pw := by
  simp [authenticate, hpw] at h
  exact ⟨h.1.1, h.1.2⟩

theorem executeCommand_gateStep (pf : FloatOracle) (srv : SrvSt) (conn : ConnSt) (cmd : Bytes) (args : List Msg)
    (pw : Bytes) (hpw : srv.authPw = some pw) :
    Post (GateStep pw srv conn (IsExactAuth pw cmd args)) (executeCommand pf srv conn cmd args) := by
  have same : ∀ o, Post (GateStep pw srv conn (IsExactAuth pw cmd args)) (Prog.ret (o, conn, srv)) :=
    fun o => .ret _ (gateStep_same pw srv conn _ o)
  unfold executeCommand
  simp only
  split
  · exact same _
  · split
    · rename_i o c' s' hsys
      apply Post.emit
      split
      · exact .emit _ _ (same _)
      · apply Post.emit
        apply Post.ret
        -- the six system commands: only AUTH touches `authorized`, only CONFIG SET touches the server state
        unfold execSystem at hsys
        split at hsys
        · rename_i hauth
          simp at hsys
          split at hsys
          · simp at hsys; obtain ⟨_, rfl, rfl⟩ := hsys; exact gateStep_same pw srv conn _ _
          · rename_i user pass hcreds
            split at hsys
            · rename_i hok
              simp at hsys; obtain ⟨_, rfl, rfl⟩ := hsys
              have ⟨hu, hp⟩ := authenticate_exact srv pw user pass conn hpw hok
              refine ⟨rfl, rfl, rfl, fun _ => Or.inr ⟨hauth, ?_⟩, fun _ => rfl⟩
              rw [hcreds, hu, hp]
            · simp at hsys; obtain ⟨_, rfl, rfl⟩ := hsys
              exact ⟨rfl, rfl, rfl, fun h => Or.inl h, fun h => h⟩
        · split at hsys
          · simp at hsys
            split at hsys
            · simp at hsys; obtain ⟨_, rfl, rfl⟩ := hsys; exact gateStep_same pw srv conn _ _
            · simp at hsys; obtain ⟨_, rfl, rfl⟩ := hsys; exact gateStep_same pw srv conn _ _
            · split at hsys
              · simp at hsys; obtain ⟨_, rfl, rfl⟩ := hsys; exact gateStep_same pw srv conn _ _
              · split at hsys <;> (simp at hsys; obtain ⟨_, rfl, rfl⟩ := hsys; exact gateStep_same pw srv conn _ _)
          · split at hsys
            · simp at hsys
              split at hsys <;> (simp at hsys; obtain ⟨_, rfl, rfl⟩ := hsys; exact gateStep_same pw srv conn _ _)
            · split at hsys
              · simp at hsys
                split at hsys
                · simp at hsys; obtain ⟨_, rfl, rfl⟩ := hsys; exact gateStep_same pw srv conn _ _
                · simp at hsys; obtain ⟨_, rfl, rfl⟩ := hsys
                  exact ⟨rfl, rfl, rfl, fun h => Or.inl h, fun h => h⟩
              · split at hsys
                · simp at hsys; obtain ⟨_, rfl, rfl⟩ := hsys; exact gateStep_same pw srv conn _ _
                · split at hsys
                  · simp at hsys
                    split at hsys
                    · simp at hsys; obtain ⟨_, rfl, rfl⟩ := hsys; exact gateStep_same pw srv conn _ _
                    · split at hsys
                      · split at hsys
                        · simp at hsys; obtain ⟨_, rfl, rfl⟩ := hsys; exact gateStep_same pw srv conn _ _
                        · simp at hsys; obtain ⟨_, rfl, rfl⟩ := hsys
                          exact ⟨rfl, rfl, rfl, fun h => Or.inl h, fun h => h⟩
                      · split at hsys
                        · split at hsys <;> (simp at hsys; obtain ⟨_, rfl, rfl⟩ := hsys; exact gateStep_same pw srv conn _ _)
                        · simp at hsys; obtain ⟨_, rfl, rfl⟩ := hsys; exact gateStep_same pw srv conn _ _
                  · simp at hsys
    · split
      · exact post_bind _ _ _ (fun o => same o)
      · split
        · exact post_bind _ _ _ (fun o => same o)
        · split
          · exact post_bind _ _ _ (fun o => same o)
          · split
            · exact post_bind _ _ _ (fun o => same o)
            · exact same _

end GoRedis
