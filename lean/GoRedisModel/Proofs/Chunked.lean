import GoRedisModel.Proofs.Reader
namespace GoRedis

theorem takeLine_length_le (bs : Bytes) : (takeLine bs).2.length ≤ bs.length := by
  induction bs with
  | nil => simp [takeLine]
  | cons b bs ih =>
    unfold takeLine
    split
    · simp; omega
    · simp; omega

theorem parseElems_rest_le (p : Bytes → PRes) (hp : ∀ r m r', p r = .ok m r' → r'.length < r.length)
    (n : Nat) (r : Bytes) (acc : List Msg) (m : Msg) (r' : Bytes)
    (h : parseElems p n r acc = .ok m r') : r'.length ≤ r.length := by
  induction n generalizing r acc with
  | zero => simp [parseElems] at h; obtain ⟨_, rfl⟩ := h; omega
  | succ n ih =>
    unfold parseElems at h
    split at h
    · rename_i m1 r1 h1
      have := hp _ _ _ h1
      have := ih _ _ h
      omega
    · simp at h
    · rename_i e _ _
      cases e <;> simp_all

theorem parse_rest_lt (f : Nat) (bs : Bytes) (m : Msg) (rest : Bytes)
    (h : parse f bs = .ok m rest) : rest.length < bs.length := by
  induction f generalizing bs m rest with
  | zero => simp [parse] at h
  | succ f ih =>
    cases bs with
    | nil => simp [parse] at h
    | cons t bs =>
      have hl := takeLine_length_le bs
      unfold parse at h
      split at h
      · split at h
        · simp at h
        · rename_i n _
          split at h
          · simp at h; rw [← h.2]; simp; omega
          · have := parseElems_rest_le (parse f) (fun r m r' hh => ih r m r' hh) _ _ _ _ _ h
            simp; omega
      · split at h
        · split at h
          · simp at h
          · split at h
            · simp at h; rw [← h.2]; simp; omega
            · split at h
              · simp at h
              · simp only at h
                split at h
                · simp at h
                · split at h
                  · simp at h; rw [← h.2]; simp; omega
                  · simp at h
        · split at h
          · simp at h
          · simp at h; rw [← h.2]; simp; omega

/-- chunked outcome, flattened: the reader is replaced by the bytes it still holds; `none` = panic -/
def IRes.flat : IRes → Option PRes
  | .ok m r => some (.ok m r.rest)
  | .eof => some .eof
  | .err => some .err
  | .panic => none
  | .fuel => some .fuel

theorem ielems_spec (f : Nat)
    (ih : ∀ r : Reader, r.rest.length < f → (inext f r).flat = some (parse f r.rest))
    (n : Nat) (r : Reader) (acc : List Msg) (hr : r.rest.length < f) :
    (ielems (inext f) n r acc).flat = some (parseElems (parse f) n r.rest acc) := by
  induction n generalizing r acc with
  | zero => simp [ielems, parseElems, IRes.flat]
  | succ n ihn =>
    unfold ielems parseElems
    have h1 := ih r hr
    cases hx : inext f r with
    | ok m r' =>
      rw [hx] at h1; simp [IRes.flat] at h1
      rw [← h1]; simp only
      have hlt := parse_rest_lt f r.rest m r'.rest h1.symm
      exact ihn r' (m :: acc) (by omega)
    | eof => rw [hx] at h1; simp [IRes.flat] at h1; rw [← h1]; simp [IRes.flat]
    | err => rw [hx] at h1; simp [IRes.flat] at h1; rw [← h1]; simp [IRes.flat]
    | panic => rw [hx] at h1; simp [IRes.flat] at h1
    | fuel => rw [hx] at h1; simp [IRes.flat] at h1; rw [← h1]; simp [IRes.flat]

theorem maxBulk_lt_maxAlloc : maxBulk + 2 ≤ maxAlloc := by decide

/-- **Chunking independence.**  The reader that mirrors `parser.go` over a transport delivering the stream
in arbitrary segments computes exactly what the flat reference parser computes on the concatenation, and
leaves exactly the unconsumed bytes in the transport. It never panics. -/
theorem inext_spec (f : Nat) (r : Reader) (hr : r.rest.length < f) :
    (inext f r).flat = some (parse f r.rest) := by
  induction f generalizing r with
  | zero => omega
  | succ f ih =>
    unfold inext
    rcases read_one r with ⟨h0, h1⟩ | ⟨t, bs, hrest, h1, h2⟩
    · have : r.read 1 = ([], (r.read 1).2) := by rw [← h1]
      rw [this]; simp [h0, parse, IRes.flat]
    · have hrd : r.read 1 = (t :: [], (r.read 1).2) := by rw [← h1]
      rw [hrd]; simp only
      rw [hrest]
      have hbs : bs.length < f := by rw [hrest] at hr; simp at hr; omega
      have hll := lineLoop_spec (f+1) (r.read 1).2 [] (by rw [h2]; omega)
      rw [h2] at hll
      simp only [List.nil_append] at hll
      have hlen := takeLine_length_le bs
      unfold parse
      by_cases ha : (t == arrayByte) = true
      · simp only [ha, if_true]
        rw [hll.1]
        cases hat : atoi (takeLine bs).1 with
        | none => simp [IRes.flat]
        | some n =>
          simp only
          by_cases hn : n < 0
          · simp [hn, IRes.flat, hll.2]
          · simp only [hn, if_false]
            have := ielems_spec f ih n.toNat (lineLoop (f+1) (r.read 1).2 []).2 [] (by rw [hll.2]; omega)
            rw [hll.2] at this
            exact this
      · simp only [ha]
        by_cases hb : (t == bulkByte) = true
        · simp only [hb, if_true]
          rw [hll.1]
          cases hat : atoi (takeLine bs).1 with
          | none => simp [IRes.flat]
          | some n =>
            simp only
            by_cases hn : n < 0
            · simp [hn, IRes.flat, hll.2]
            · simp only [hn, if_false]
              by_cases hbig : n.toNat > maxBulk
              · simp [hbig, IRes.flat]
              · simp only [hbig, if_false]
                have hal : ¬ (n.toNat + 2 > maxAlloc) := by
                  have := maxBulk_lt_maxAlloc; omega
                simp only [hal, if_false]
                have hls := lenLoop_spec (n.toNat + 2) (lineLoop (f+1) (r.read 1).2 []).2 (n.toNat + 2) [] (Nat.le_refl _)
                rw [hll.2] at hls
                simp only [List.nil_append] at hls
                rw [hls.1]
                by_cases hshort : (takeLine bs).2.length < n.toNat + 2
                · have : min (n.toNat + 2) (takeLine bs).2.length < n.toNat + 2 := by omega
                  simp [this, hshort, IRes.flat]
                · have hfull : ¬ ((List.take (n.toNat + 2) (takeLine bs).2).length < n.toNat + 2) := by
                    simp only [List.length_take]; omega
                  simp only [hfull, hshort, if_false]
                  have hd : List.drop n.toNat (List.take (n.toNat + 2) (takeLine bs).2)
                      = List.take 2 (List.drop n.toNat (takeLine bs).2) := by
                    rw [List.drop_take]; simp
                  have ht : List.take n.toNat (List.take (n.toNat + 2) (takeLine bs).2)
                      = List.take n.toNat (takeLine bs).2 := by
                    rw [List.take_take]; simp
                  rw [hd, ht]
                  by_cases hcr : (List.take 2 (List.drop n.toNat (takeLine bs).2) == CRLF) = true
                  · simp [hcr, IRes.flat, hls.2]
                  · simp [hcr, IRes.flat]
        · simp only [hb]
          cases hty : lineTy? t with
          | none => simp [IRes.flat]
          | some ty => simp [IRes.flat, hll.1, hll.2]

end GoRedis
