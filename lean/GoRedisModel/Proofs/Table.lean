import GoRedisModel.Properties.Grammar
namespace GoRedis

/-- generic per-form lemmas: a model table entry of the matching shape dispatches as the grammar row says -/
theorem dispatches_of_shape (pf : FloatOracle) (name : Bytes) (form : Form) (ex : UExec)
    (hs : name ∉ systemNames) (hl : (userTable pf).lookup name = some ex)
    (hshape : match form with
      | .s f => ex = shapeS f | .ss f => ex = shapeSS f | .sss f => ex = shapeSSS f
      | .si f => ex = shapeSI f | .sii f => ex = shapeSII f | .sfs f => ex = shapeSFS pf f
      | .l f => ex = shapeL f | .sl f => ex = shapeSL f) :
    Row.Dispatches pf ⟨name, form⟩ := by
  intro srv conn c hh ha hu
  simp only at hu
  have hs' : upper c ∉ systemNames := by rw [hu]; exact hs
  have hl' : (userTable pf).lookup (upper c) = some ex := by rw [hu]; exact hl
  have key : ∀ args call, ex args = callRet call → executeCommand pf srv conn c args = singleCall name call conn srv := by
    intro args call hx
    have := dispatch_callRet pf srv conn c args ex call hh ha hs' hl' hx
    rw [hu] at this; exact this
  cases form with
  | s f => subst hshape; intro k rest; exact key _ _ (shapeS_ok f k rest)
  | ss f => subst hshape; intro a b rest; exact key _ _ (shapeSS_ok f a b rest)
  | sss f => subst hshape; intro a b d rest; exact key _ _ (shapeSSS_ok f a b d rest)
  | si f => subst hshape; intro a tok i rest h; exact key _ _ (shapeSI_ok f a tok i rest h)
  | sii f => subst hshape; intro a t1 t2 i j rest h1 h2; exact key _ _ (shapeSII_ok f a t1 t2 i j rest h1 h2)
  | sfs f => subst hshape; intro a tok v d rest h; exact key _ _ (shapeSFS_ok pf f a tok d v rest h)
  | l f => subst hshape; intro b l; exact key _ _ (shapeL_ok f b l)
  | sl f => subst hshape; intro a b l; exact key _ _ (shapeSL_ok f a b l)

theorem rejects_of_shape (pf : FloatOracle) (name : Bytes) (form : Form) (ex : UExec)
    (hs : name ∉ systemNames) (hl : (userTable pf).lookup name = some ex)
    (hshape : match form with
      | .s f => ex = shapeS f | .ss f => ex = shapeSS f | .sss f => ex = shapeSSS f
      | .si f => ex = shapeSI f | .sii f => ex = shapeSII f | .sfs f => ex = shapeSFS pf f
      | .l f => ex = shapeL f | .sl f => ex = shapeSL f) :
    Row.RejectsIllFormed pf ⟨name, form⟩ := by
  intro srv conn c hh ha hu
  simp only at hu
  have hs' : upper c ∉ systemNames := by rw [hu]; exact hs
  have hl' : (userTable pf).lookup (upper c) = some ex := by rw [hu]; exact hl
  have key : ∀ args, Rejects (ex args) → RejectedBy pf srv conn c name args := by
    intro args ⟨e, hx⟩
    refine ⟨e, ?_⟩
    have := dispatch_failE pf srv conn c args ex e hh ha hs' hl' hx
    rw [hu] at this; exact this
  cases form with
  | s f => subst hshape; exact ⟨key _ (shapeS_missing f), fun rest => key _ (shapeS_null f rest)⟩
  | ss f =>
    subst hshape
    exact ⟨key _ (shapeSS_missing0 f), fun a => key _ (shapeSS_missing1 f a), fun rest => key _ (shapeSS_null0 f rest),
      fun a rest => key _ (shapeSS_null1 f a rest)⟩
  | sss f =>
    subst hshape
    exact ⟨key _ (shapeSSS_missing0 f), fun a => key _ (shapeSSS_missing1 f a), fun a b => key _ (shapeSSS_missing2 f a b),
      fun rest => key _ (shapeSSS_null0 f rest), fun a rest => key _ (shapeSSS_null1 f a rest),
      fun a b rest => key _ (shapeSSS_null2 f a b rest)⟩
  | si f =>
    subst hshape
    exact ⟨key _ (shapeSI_missing0 f), fun a => key _ (shapeSI_missing1 f a), fun rest => key _ (shapeSI_null0 f rest),
      fun a rest => key _ (shapeSI_null1 f a rest), fun a tok rest h => key _ (shapeSI_bad f a tok rest h)⟩
  | sii f =>
    subst hshape
    exact ⟨key _ (shapeSII_missing0 f), fun a => key _ (shapeSII_missing1 f a),
      fun a t1 i h => key _ (shapeSII_missing2 f a t1 i h), fun a rest => key _ (shapeSII_null1 f a rest),
      fun a t1 i rest h => key _ (shapeSII_null2 f a t1 i rest h), fun a tok rest h => key _ (shapeSII_bad1 f a tok rest h),
      fun a t1 i tok rest h1 h => key _ (shapeSII_bad2 f a t1 tok i rest h1 h)⟩
  | sfs f =>
    subst hshape
    exact ⟨fun a => key _ (shapeSFS_missing1 pf f a), fun a tok v h => key _ (shapeSFS_missing2 pf f a tok v h),
      fun a rest => key _ (shapeSFS_null1 pf f a rest), fun a tok rest h => key _ (shapeSFS_bad pf f a tok rest h)⟩
  | l f => subst hshape; exact ⟨key _ (shapeL_empty f), fun l rest => key _ (shapeL_null f l rest)⟩
  | sl f =>
    subst hshape
    exact ⟨key _ (shapeSL_missing0 f), fun a => key _ (shapeSL_empty f a), fun a l rest => key _ (shapeSL_null f a l rest)⟩

end GoRedis
