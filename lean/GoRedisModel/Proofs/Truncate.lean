import GoRedisModel.Proofs.Parse
import GoRedisModel.Proofs.Chunked
namespace GoRedis

/-- `nextLineBytes` on a truncated `digits CR LF X`: the cut falls inside the digits, right after the CR, or
later -/
theorem takeLine_take (d X : Bytes) (h : CR ∉ d) (j : Nat) :
    takeLine ((d ++ CR :: LF :: X).take j) =
      if j ≤ d.length then (d.take j, []) else if j = d.length + 1 then (d, []) else (d, X.take (j - d.length - 2)) := by
  induction d generalizing j with
  | nil =>
    match j with
    | 0 => simp [takeLine]
    | 1 => simp [takeLine]
    | j + 2 => simp [takeLine]
  | cons b bs ih =>
    have hb : b ≠ CR := by intro e; subst e; simp at h
    have hbs : CR ∉ bs := fun e => h (List.mem_cons_of_mem _ e)
    match j with
    | 0 => simp [takeLine]
    | j + 1 =>
      simp only [List.cons_append, List.take_succ_cons, takeLine]
      have hbeq : (b == CR) = false := by simp [hb]
      simp only [hbeq, Bool.false_eq_true, if_false]
      rw [ih hbs j]
      by_cases h1 : j ≤ bs.length
      · simp [h1]
      · by_cases h2 : j = bs.length + 1
        · have : ¬ (bs.length + 1 ≤ bs.length) := by omega
          simp [h2, this]
        · have h3 : ¬ (j + 1 ≤ bs.length + 1) := by omega
          have h4 : ¬ (j + 1 = bs.length + 1 + 1) := by omega
          simp only [h1, h2, if_false, List.length_cons, h3, h4]
          congr 2; omega

def allDigits (d : Bytes) : Prop := ∀ b ∈ d, 48 ≤ b ∧ b ≤ 57

theorem allDigits_take (d : Bytes) (j : Nat) (h : allDigits d) : allDigits (d.take j) :=
  fun b hb => h b (List.mem_of_mem_take hb)

theorem atoi_digits_nonneg (d : Bytes) (h : allDigits d) (v : Int) (hv : atoi d = some v) : 0 ≤ v := by
  match d with
  | [] => simp [atoi] at hv
  | b :: bs =>
    have hb := h b (by simp)
    have h45 : b ≠ 45 := by intro e; subst e; exact absurd hb.1 (by decide)
    have h43 : b ≠ 43 := by intro e; subst e; exact absurd hb.1 (by decide)
    unfold atoi at hv
    split at hv
    · simp at *
    · simp_all
    · simp_all
    · split at hv
      · split at hv
        · simp at hv; omega
        · simp at hv
      · simp at hv

theorem digitsVal_ge (d : Bytes) (acc v : Nat) (h : digitsVal d acc = some v) : acc ≤ v := by
  induction d generalizing acc with
  | nil => simp [digitsVal] at h; omega
  | cons b bs ih =>
    simp only [digitsVal] at h
    split at h
    · have := ih _ h; omega
    · simp at h

/-- a digit string that starts with a non-zero digit denotes a number ≥ 1 -/
theorem atoi_digits_pos (b : UInt8) (bs : Bytes) (h : allDigits (b :: bs)) (hb : 49 ≤ b) (v : Int)
    (hv : atoi (b :: bs) = some v) : 1 ≤ v := by
  have hb' := h b (by simp)
  have h45 : b ≠ 45 := by intro e; subst e; exact absurd hb'.1 (by decide)
  have h43 : b ≠ 43 := by intro e; subst e; exact absurd hb'.1 (by decide)
  unfold atoi at hv
  split at hv
  · simp at *
  · simp_all
  · simp_all
  · rename_i hne1 hne2 hne3
    split at hv
    · rename_i w hw
      split at hv
      · simp at hv
        simp only [digitsVal, hb', and_self, if_true] at hw
        have := digitsVal_ge bs _ w hw
        have hbn : 49 ≤ b.toNat := by simpa [UInt8.le_iff_toNat_le] using hb
        omega
      · simp at hv
    · simp at hv

theorem natDigits_head (f n : Nat) (hn : 1 ≤ n) (hf : n < 10 ^ f) :
    ∃ b bs, natDigits f n = b :: bs ∧ 49 ≤ b := by
  induction f generalizing n with
  | zero => simp at hf; omega
  | succ f ih =>
    unfold natDigits
    split
    · rename_i h10
      refine ⟨digit n, [], rfl, ?_⟩
      have : n = 1 ∨ n = 2 ∨ n = 3 ∨ n = 4 ∨ n = 5 ∨ n = 6 ∨ n = 7 ∨ n = 8 ∨ n = 9 := by omega
      rcases this with h|h|h|h|h|h|h|h|h <;> subst h <;> decide
    · rename_i h10
      have hlt : n / 10 < 10 ^ f := by rw [Nat.pow_succ] at hf; omega
      obtain ⟨b, bs, hb, hpos⟩ := ih (n / 10) (by omega) hlt
      exact ⟨b, bs ++ [digit (n % 10)], by simp [hb], hpos⟩

theorem dec_head (n : Nat) (hn : 1 ≤ n) : ∃ b bs, dec n = b :: bs ∧ 49 ≤ b :=
  natDigits_head (n + 1) n hn (lt_ten_pow n)

/-- **A bulk string cut anywhere inside its encoding** is an error (or, cut at 0, a clean end of stream):
never a value. -/
theorem parse_bulk_truncated (f : Nat) (b : Bytes) (hb : b.length ≤ maxBulk) (q : Nat)
    (hq : q < (enc (.bulk (some b))).length) :
    parse (f + 1) ((enc (.bulk (some b))).take q) = (if q = 0 then .eof else .err) := by
  match q with
  | 0 => simp [parse]
  | q + 1 =>
    have hd := dec_digits b.length
    have hcr := dec_no_cr b.length
    have henc : enc (.bulk (some b)) = bulkByte :: (dec b.length ++ CR :: LF :: (b ++ [CR, LF])) := by
      simp [enc, CRLF]
    rw [henc] at hq ⊢
    simp only [List.take_succ_cons, parse]
    have hne : (bulkByte == arrayByte) = false := by decide
    simp only [hne, Bool.false_eq_true, if_false, beq_self_eq_true, if_true]
    rw [takeLine_take _ _ hcr q]
    simp only [List.length_cons, List.length_append, List.length_nil] at hq
    by_cases h1 : q ≤ (dec b.length).length
    · simp only [h1, if_true]
      cases hat : atoi ((dec b.length).take q) with
      | none => simp
      | some v =>
        have hv := atoi_digits_nonneg _ (allDigits_take _ q hd) v hat
        have hneg : ¬ v < 0 := by omega
        simp [hneg]
    · simp only [h1, if_false]
      have hmi : b.length ≤ maxInt := Nat.le_trans hb maxBulk_le_maxInt
      have hneg : ¬ ((b.length : Int) < 0) := by omega
      have hbig : ¬ (b.length > maxBulk) := by omega
      by_cases h2 : q = (dec b.length).length + 1
      · simp [h2, atoi_dec _ hmi, hneg, hbig]
      · simp only [h2, if_false, atoi_dec _ hmi, hneg, Int.toNat_natCast, hbig]
        have hlen : (List.take (q - (dec b.length).length - 2) (b ++ [CR, LF])).length < b.length + 2 := by
          simp only [List.length_take, List.length_append, List.length_cons, List.length_nil]
          omega
        simp only [hlen, if_true]
        simp

def bulks (bs : List Bytes) : List Msg := bs.map fun b => Msg.bulk (some b)

theorem encs_bulks_cons (b : Bytes) (bs : List Bytes) :
    encs (bulks (b :: bs)) = enc (.bulk (some b)) ++ encs (bulks bs) := by simp [bulks, encs]

/-- the element loop over a truncated sequence of bulk strings is an error -/
theorem parseElems_bulks_truncated (f : Nat) (bs : List Bytes) (hbs : bs ≠ []) (hlen : ∀ b ∈ bs, b.length ≤ maxBulk)
    (q : Nat) (hq : q < (encs (bulks bs)).length) (acc : List Msg) :
    parseElems (parse (f + 1)) bs.length ((encs (bulks bs)).take q) acc = .err := by
  induction bs generalizing q acc with
  | nil => exact absurd rfl hbs
  | cons b bs ih =>
    rw [encs_bulks_cons] at hq ⊢
    simp only [List.length_cons, parseElems]
    have hb := hlen b (by simp)
    by_cases hlt : q < (enc (.bulk (some b))).length
    · rw [List.take_append_of_le_length (by omega)]
      rw [parse_bulk_truncated f b hb q hlt]
      by_cases hq0 : q = 0 <;> simp [hq0]
    · have hge : (enc (.bulk (some b))).length ≤ q := by omega
      rw [List.take_append]
      rw [List.take_of_length_le hge]
      rw [parse_enc (.bulk (some b)) (by simpa [wf] using hb) (f + 1) (by simp [depth]) _]
      simp only
      have hq' : q - (enc (.bulk (some b))).length < (encs (bulks bs)).length := by
        simp only [List.length_append] at hq; omega
      have hne : bs ≠ [] := by
        intro e; subst e; simp [bulks, encs] at hq'
      exact ih hne (fun x hx => hlen x (by simp [hx])) _ hq' _

/-- **A request cut anywhere strictly inside its encoding parses to an error — never to a value, never to
a clean end of stream.**  A request is a non-empty array of non-null bulk strings; the cut `p` ranges over
every byte offset `0 < p < |enc r|`: inside the count line, between CR and LF, inside a bulk length,
inside a payload, before a payload's CRLF, exactly between two elements. -/
theorem parse_request_truncated (f : Nat) (bs : List Bytes) (hbs : bs ≠ []) (hlen : ∀ b ∈ bs, b.length ≤ maxBulk)
    (hn : bs.length ≤ maxInt) (p : Nat) (hp0 : 0 < p) (hp : p < (enc (.arr (bulks bs))).length) :
    parse (f + 2) ((enc (.arr (bulks bs))).take p) = .err := by
  have hn1 : 1 ≤ bs.length := by cases bs with | nil => exact absurd rfl hbs | cons _ _ => simp
  have hblen : (bulks bs).length = bs.length := by simp [bulks]
  have henc : enc (.arr (bulks bs)) = arrayByte :: (dec bs.length ++ CR :: LF :: encs (bulks bs)) := by
    simp [enc, CRLF, hblen]
  rw [henc] at hp ⊢
  obtain ⟨p, rfl⟩ : ∃ p', p = p' + 1 := ⟨p - 1, by omega⟩
  simp only [List.take_succ_cons, parse, beq_self_eq_true, if_true]
  have hcr := dec_no_cr bs.length
  have hd := dec_digits bs.length
  rw [takeLine_take _ _ hcr p]
  simp only [List.length_cons, List.length_append] at hp
  by_cases h1 : p ≤ (dec bs.length).length
  · simp only [h1, if_true]
    match p with
    | 0 => simp [atoi]
    | p + 1 =>
      obtain ⟨b0, rest0, hdec, hpos⟩ := dec_head bs.length hn1
      have htake : (dec bs.length).take (p + 1) = b0 :: rest0.take p := by rw [hdec]; simp
      cases hat : atoi ((dec bs.length).take (p + 1)) with
      | none => simp
      | some v =>
        have hall := allDigits_take _ (p + 1) hd
        rw [htake] at hat hall
        have hv := atoi_digits_pos b0 _ hall hpos v hat
        have hneg : ¬ v < 0 := by omega
        obtain ⟨k, hk⟩ : ∃ k, v.toNat = k + 1 := ⟨v.toNat - 1, by omega⟩
        simp [hneg, hk, parseElems, parse]
  · simp only [h1, if_false]
    have hneg : ¬ ((bs.length : Int) < 0) := by omega
    have hat := atoi_dec _ hn
    by_cases h2 : p = (dec bs.length).length + 1
    · obtain ⟨k, hk⟩ : ∃ k, bs.length = k + 1 := ⟨bs.length - 1, by omega⟩
      simp only [h2, if_true, hat, hneg, if_false, Int.toNat_natCast]
      rw [hk]
      simp [parseElems, parse]
    · simp only [h2, if_false, hat, hneg, Int.toNat_natCast]
      have hq : p - (dec bs.length).length - 2 < (encs (bulks bs)).length := by omega
      exact parseElems_bulks_truncated f bs hbs hlen _ hq []

end GoRedis
