import GoRedisModel.Model.ParserImpl
namespace GoRedis

theorem dropEmpty_flatten (cs : List Bytes) : (dropEmpty cs).flatten = cs.flatten := by
  induction cs with
  | nil => rfl
  | cons c cs ih => cases c <;> simp [dropEmpty, ih]

theorem dropEmpty_head_ne (cs : List Bytes) (c : Bytes) (t : List Bytes) (h : dropEmpty cs = c :: t) : c ≠ [] := by
  induction cs with
  | nil => simp [dropEmpty] at h
  | cons d ds ih =>
    cases d with
    | nil => simp [dropEmpty] at h; exact ih h
    | cons x xs => simp [dropEmpty] at h; rw [← h.1]; simp

/-- The three facts about the transport that every later proof uses. -/
theorem read_append (r : Reader) (n : Nat) : (r.read n).1 ++ (r.read n).2.rest = r.rest := by
  unfold Reader.read Reader.rest
  split
  · rename_i h; have := dropEmpty_flatten r.chunks; rw [h] at this; simp at this ⊢; exact this
  · rename_i c cs h; have := dropEmpty_flatten r.chunks; rw [h] at this
    simp at this; simp [← this, ← List.append_assoc, List.take_append_drop]

theorem read_length_le (r : Reader) (n : Nat) : (r.read n).1.length ≤ n := by
  unfold Reader.read; split <;> simp [List.length_take]; omega

theorem read_nil_iff (r : Reader) (n : Nat) (hn : 0 < n) : (r.read n).1 = [] ↔ r.rest = [] := by
  unfold Reader.read Reader.rest
  split
  · rename_i h; have := dropEmpty_flatten r.chunks; rw [h] at this; simp at this ⊢; exact this
  · rename_i c cs h
    have hne := dropEmpty_head_ne _ _ _ h
    have := dropEmpty_flatten r.chunks; rw [h] at this
    constructor
    · intro h0
      cases c with
      | nil => exact absurd rfl hne
      | cons x xs => cases n with
        | zero => omega
        | succ n => simp at h0
    · intro h0; rw [← this] at h0; simp at h0; exact absurd h0.1 hne

/-- reading one byte = taking the head of the remaining stream -/
theorem read_one (r : Reader) :
    (r.rest = [] ∧ (r.read 1).1 = []) ∨
    (∃ b t, r.rest = b :: t ∧ (r.read 1).1 = [b] ∧ (r.read 1).2.rest = t) := by
  have ha := read_append r 1
  have hl := read_length_le r 1
  have hn := read_nil_iff r 1 (by omega)
  match h : (r.read 1).1 with
  | [] => left; exact ⟨hn.mp h, rfl⟩
  | [b] => right; rw [h] at ha; exact ⟨b, _, ha.symm, rfl, rfl⟩
  | _ :: _ :: _ => rw [h] at hl; simp at hl

/-- `nextLineBytes` over any segmentation = `takeLine` on the concatenation. -/
theorem lineLoop_spec (k : Nat) (r : Reader) (acc : Bytes) (hk : r.rest.length < k) :
    (lineLoop k r acc).1 = acc ++ (takeLine r.rest).1 ∧ (lineLoop k r acc).2.rest = (takeLine r.rest).2 := by
  induction k generalizing r acc with
  | zero => omega
  | succ k ih =>
    unfold lineLoop
    rcases read_one r with ⟨h0, h1⟩ | ⟨b, t, hr, h1, h2⟩
    · have ha := read_append r 1
      rw [h1, h0] at ha
      have : (r.read 1) = ([], (r.read 1).2) := by rw [← h1]
      rw [this]; simp [h0, takeLine]; simpa using ha
    · have : (r.read 1) = ([b], (r.read 1).2) := by rw [← h1]
      rw [this]; simp only
      by_cases hb : b = CR
      · subst hb
        simp [hr, takeLine]
        have ha := read_append (r.read 1).2 1
        rw [h2] at ha
        rcases read_one (r.read 1).2 with ⟨e0, e1⟩ | ⟨c, u, er, e1, e2⟩
        · rw [h2] at e0; rw [e1] at ha; simp at ha; simp [e0, ha]
        · rw [h2] at er; rw [e2, er]; simp
      · have hlen : (r.read 1).2.rest.length < k := by rw [h2]; rw [hr] at hk; simp at hk; omega
        have := ih (r.read 1).2 (acc ++ [b]) hlen
        simp [hb, hr, takeLine, this.1, this.2, h2]

/-- the accumulate loop of `nextLengthBytes` over any segmentation = `take`/`drop` on the concatenation -/
theorem lenLoop_spec (k : Nat) (r : Reader) (need : Nat) (acc : Bytes) (hk : need ≤ k) :
    (lenLoop k r need acc).1 = acc ++ r.rest.take need ∧
    (lenLoop k r need acc).2.rest = r.rest.drop need := by
  induction k generalizing r need acc with
  | zero =>
    have : need = 0 := by omega
    subst this; simp [lenLoop]
  | succ k ih =>
    unfold lenLoop
    by_cases h0 : need = 0
    · subst h0; simp
    · simp only [h0, if_false]
      have ha := read_append r need
      have hl := read_length_le r need
      have hn := read_nil_iff r need (by omega)
      match hrd : r.read need with
      | ([], r') =>
        rw [hrd] at ha hn; simp at ha hn
        simp [hn, ha]
      | (b :: bs, r') =>
        rw [hrd] at ha hl; simp at ha hl
        have hlen : need - (b :: bs).length ≤ k := by simp; omega
        have := ih r' (need - (b :: bs).length) (acc ++ b :: bs) hlen
        simp only at this ⊢
        rw [this.1, this.2, ← ha]
        constructor
        · have e : need = (bs.length + 1) + (need - (bs.length + 1)) := by omega
          conv => rhs; rw [e]
          simp [List.take_add]
        · have e : need = (bs.length + 1) + (need - (bs.length + 1)) := by omega
          conv => rhs; rw [e]
          rw [← List.drop_drop]
          simp

end GoRedis
