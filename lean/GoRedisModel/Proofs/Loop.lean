import GoRedisModel.Proofs.Frames
namespace GoRedis

/-- The request-level semantics of the connection loop: what it does for a list of request values that
have already been parsed, followed by the end of the stream. -/
def steps (pf : FloatOracle) : SrvSt → ConnSt → List Msg → List HRes → List Ev
  | _, _, [], _ => [.rootStart, .spanStart b!"parse", .spanFinish, .topFinish]
  | srv, conn, m :: ms, script =>
    let r := reqStep pf srv conn m script
    [Ev.rootStart, .spanStart b!"parse", .spanFinish] ++ (r.evs ++ match r.next with
      | none => []
      | some (conn', srv') => steps pf srv' conn' ms r.script)

mutual
theorem depth_lt_enc (m : Msg) (h : noAbsent m = true) : depth m < (enc m).length := by
  match m with
  | .line t p => simp [depth, enc]
  | .bulk none => simp [depth, enc]
  | .bulk (some p) => simp [depth, enc]
  | .arr es =>
    simp only [noAbsent] at h
    have := depths_le_encs es h
    simp [depth, enc, CRLF]; omega
  | .absent => simp [noAbsent] at h
  | .arrNil => simp [noAbsent] at h
theorem depths_le_encs (ms : List Msg) (h : noAbsents ms = true) : depths ms ≤ (encs ms).length := by
  match ms with
  | [] => simp [depths]
  | m :: ms =>
    simp only [noAbsents, Bool.and_eq_true] at h
    have h1 := depth_lt_enc m h.1
    have h2 := depths_le_encs ms h.2
    simp [depths, encs]; omega
end

mutual
theorem wf_noAbsent (m : Msg) (h : wf m) : noAbsent m = true := by
  match m with
  | .line t p => rfl
  | .bulk p => rfl
  | .arr es => simp only [wf] at h; simp only [noAbsent]; exact wfs_noAbsents es h.2
  | .absent => simp [wf] at h
  | .arrNil => simp [wf] at h
theorem wfs_noAbsents (ms : List Msg) (h : wfs ms) : noAbsents ms = true := by
  match ms with
  | [] => rfl
  | m :: ms => simp only [wfs] at h; simp [noAbsents, wf_noAbsent m h.1, wfs_noAbsents ms h.2]
end

theorem enc_length_pos (m : Msg) (h : noAbsent m = true) : 0 < (enc m).length := by
  have := depth_lt_enc m h; omega

theorem encs_length_ge (ms : List Msg) (h : noAbsents ms = true) : ms.length ≤ (encs ms).length := by
  induction ms with
  | nil => simp
  | cons m ms ih =>
    simp only [noAbsents, Bool.and_eq_true] at h
    have := enc_length_pos m h.1
    have := ih h.2
    simp [encs]; omega

/-- **The byte-level loop is the request-level semantics.**  For every pipeline of canonical values
`ms`, the loop of `receive` run on their concatenated encodings does, request after request, exactly what
`steps` says — in particular it never runs out of fuel: every executor and the loop itself terminate. -/
theorem serveLoop_steps (pf : FloatOracle) (ms : List Msg) (hw : wfs ms) (n : Nat) (hn : ms.length < n)
    (srv : SrvSt) (conn : ConnSt) (script : List HRes) :
    serveLoop pf n srv conn (encs ms) script = steps pf srv conn ms script := by
  induction ms generalizing n srv conn script with
  | nil =>
    obtain ⟨n, rfl⟩ : ∃ n', n = n' + 1 := ⟨n - 1, by omega⟩
    simp [serveLoop, encs, parse, steps]
  | cons m ms ih =>
    obtain ⟨n, rfl⟩ : ∃ n', n = n' + 1 := ⟨n - 1, by simp at hn; omega⟩
    simp only [wfs] at hw
    have hd := depth_lt_enc m (wf_noAbsent m hw.1)
    have hp : parse ((encs (m :: ms)).length + 1) (encs (m :: ms)) = .ok m (encs ms) := by
      simp only [encs]
      exact parse_enc m hw.1 _ (by simp; omega) (encs ms)
    unfold serveLoop steps
    rw [hp]
    simp only [List.cons_append, List.nil_append, List.cons.injEq, true_and]
    congr 1
    cases hnx : (reqStep pf srv conn m script).next with
    | none => rfl
    | some p =>
      obtain ⟨c', s'⟩ := p
      simp only
      exact ih hw.2 n (by simp at hn; omega) _ _ _

/-- payloads of the writes of a trace -/
def writesOf : List Ev → List Bytes
  | [] => []
  | .wr bs :: es => bs :: writesOf es
  | _ :: es => writesOf es

theorem writesOf_append (a b : List Ev) : writesOf (a ++ b) = writesOf a ++ writesOf b := by
  induction a with
  | nil => rfl
  | cons e es ih => cases e <;> simp [writesOf, ih]

theorem writesOf_run {α : Type} (view : ConnSt) (p : Prog α) (s : List HRes) : writesOf (p.run view s).1 = [] := by
  have h := run_no_wr view p s
  generalize (p.run view s).1 = evs at h
  induction evs with
  | nil => rfl
  | cons e es ih =>
    have he := h e (by simp)
    cases e <;> simp [Ev.isWr] at he <;> simp [writesOf] <;> exact ih (fun x hx => h x (by simp [hx]))

def crashedIn : List Ev → Bool
  | [] => false
  | .crash :: _ => true
  | _ :: es => crashedIn es

theorem crashedIn_append (a b : List Ev) : crashedIn (a ++ b) = (crashedIn a || crashedIn b) := by
  induction a with
  | nil => simp [crashedIn]
  | cons e es ih => cases e <;> simp [crashedIn, ih]

/-- One request, one reply: unless the request ends in a recovered panic, its block contains exactly one
write, and that write is the serialization of the request's outcome. -/
theorem reqStep_one_write (pf : FloatOracle) (srv : SrvSt) (conn : ConnSt) (m : Msg) (script : List HRes)
    (hc : crashedIn (reqStep pf srv conn m script).evs = false) :
    ∃ bs, writesOf (reqStep pf srv conn m script).evs = [bs] ∧ Frame bs := by
  unfold reqStep at hc ⊢
  have hw := writesOf_run conn (handleMessage pf srv conn m) script
  generalize (handleMessage pf srv conn m).run conn script = rr at hc hw ⊢
  obtain ⟨evs, res, script'⟩ := rr
  simp only at hc hw ⊢
  cases res with
  | none => simp [crashedIn_append, crashedIn] at hc
  | some t =>
    obtain ⟨out, conn', srv'⟩ := t
    simp only at hc ⊢
    cases hrb : replyBytes out with
    | none => rw [hrb] at hc; simp [crashedIn_append, crashedIn] at hc
    | some b =>
      refine ⟨b, ?_, replyBytes_frame out b hrb⟩
      simp [writesOf_append, hw, writesOf]

/-- events an executor run can produce: handler calls and span operations only -/
def Ev.isExec : Ev → Bool
  | .hcall _ _ => true
  | .spanStart _ => true
  | .spanFinish => true
  | _ => false

theorem run_exec {α : Type} (view : ConnSt) (p : Prog α) (s : List HRes) :
    ∀ e ∈ (p.run view s).1, e.isExec = true := by
  induction p generalizing s with
  | ret a => simp [Prog.run]
  | panic => simp [Prog.run]
  | emit op k ih =>
    intro e he
    simp only [Prog.run] at he
    simp at he
    rcases he with rfl | he
    · cases op <;> rfl
    · exact ih _ e he
  | call c k ih =>
    intro e he
    simp only [Prog.run] at he
    simp at he
    rcases he with rfl | he
    · rfl
    · exact ih _ _ e he

theorem crashedIn_exec (evs : List Ev) (h : ∀ e ∈ evs, e.isExec = true) : crashedIn evs = false := by
  induction evs with
  | nil => rfl
  | cons e es ih =>
    have he := h e (by simp)
    have := ih (fun x hx => h x (by simp [hx]))
    cases e <;> simp [Ev.isExec] at he <;> simp [crashedIn, this]

/-- A request that ends in a recovered panic writes nothing and ends the connection. -/
theorem reqStep_crash (pf : FloatOracle) (srv : SrvSt) (conn : ConnSt) (m : Msg) (script : List HRes)
    (hc : crashedIn (reqStep pf srv conn m script).evs = true) :
    writesOf (reqStep pf srv conn m script).evs = [] ∧ (reqStep pf srv conn m script).next = none := by
  unfold reqStep at hc ⊢
  have hw := writesOf_run conn (handleMessage pf srv conn m) script
  have hnc := crashedIn_exec _ (run_exec conn (handleMessage pf srv conn m) script)
  generalize (handleMessage pf srv conn m).run conn script = rr at hc hw hnc ⊢
  obtain ⟨evs, res, script'⟩ := rr
  simp only at hc hw hnc ⊢
  cases res with
  | none => simp [writesOf_append, hw, writesOf]
  | some t =>
    obtain ⟨out, conn', srv'⟩ := t
    simp only at hc ⊢
    cases hrb : replyBytes out with
    | none => simp [writesOf_append, hw, writesOf]
    | some b => rw [hrb] at hc; simp [crashedIn_append, hnc, crashedIn] at hc


/-- the replies of a pipeline, request by request, in request order, up to the request that ends the
connection -/
def repliesOf (pf : FloatOracle) : SrvSt → ConnSt → List Msg → List HRes → List Bytes
  | _, _, [], _ => []
  | srv, conn, m :: ms, script =>
    let r := reqStep pf srv conn m script
    writesOf r.evs ++ match r.next with
      | none => []
      | some (conn', srv') => repliesOf pf srv' conn' ms r.script

theorem steps_writes (pf : FloatOracle) (srv : SrvSt) (conn : ConnSt) (ms : List Msg) (script : List HRes) :
    writesOf (steps pf srv conn ms script) = repliesOf pf srv conn ms script := by
  induction ms generalizing srv conn script with
  | nil => simp [steps, repliesOf, writesOf]
  | cons m ms ih =>
    simp only [steps, repliesOf, List.cons_append, List.nil_append, writesOf, writesOf_append]
    congr 1
    cases (reqStep pf srv conn m script).next with
    | none => rfl
    | some p => obtain ⟨c', s'⟩ := p; exact ih _ _ _

theorem reqStep_writes_le_one (pf : FloatOracle) (srv : SrvSt) (conn : ConnSt) (m : Msg) (script : List HRes) :
    (writesOf (reqStep pf srv conn m script).evs).length ≤ 1 := by
  cases hc : crashedIn (reqStep pf srv conn m script).evs with
  | false => obtain ⟨bs, h, _⟩ := reqStep_one_write pf srv conn m script hc; simp [h]
  | true => simp [(reqStep_crash pf srv conn m script hc).1]

theorem repliesOf_length_le (pf : FloatOracle) (srv : SrvSt) (conn : ConnSt) (ms : List Msg) (script : List HRes) :
    (repliesOf pf srv conn ms script).length ≤ ms.length := by
  induction ms generalizing srv conn script with
  | nil => simp [repliesOf]
  | cons m ms ih =>
    simp only [repliesOf, List.length_append, List.length_cons]
    have h1 := reqStep_writes_le_one pf srv conn m script
    cases (reqStep pf srv conn m script).next with
    | none => simp; omega
    | some p => obtain ⟨c', s'⟩ := p; have := ih s' c' (reqStep pf srv conn m script).script; simp only; omega

/-- every request of the pipeline is answered and the connection stays open (no QUIT, no crash) -/
def Alive (pf : FloatOracle) : SrvSt → ConnSt → List Msg → List HRes → Prop
  | _, _, [], _ => True
  | srv, conn, m :: ms, script =>
    let r := reqStep pf srv conn m script
    match r.next with
    | none => False
    | some (conn', srv') => Alive pf srv' conn' ms r.script

theorem next_some_not_crashed (pf : FloatOracle) (srv : SrvSt) (conn : ConnSt) (m : Msg) (script : List HRes)
    (p : ConnSt × SrvSt) (h : (reqStep pf srv conn m script).next = some p) :
    crashedIn (reqStep pf srv conn m script).evs = false := by
  cases hc : crashedIn (reqStep pf srv conn m script).evs with
  | false => rfl
  | true => rw [(reqStep_crash pf srv conn m script hc).2] at h; simp at h

theorem repliesOf_length_alive (pf : FloatOracle) (srv : SrvSt) (conn : ConnSt) (ms : List Msg) (script : List HRes)
    (h : Alive pf srv conn ms script) : (repliesOf pf srv conn ms script).length = ms.length := by
  induction ms generalizing srv conn script with
  | nil => simp [repliesOf]
  | cons m ms ih =>
    simp only [Alive] at h
    simp only [repliesOf, List.length_append, List.length_cons]
    cases hn : (reqStep pf srv conn m script).next with
    | none => rw [hn] at h; exact absurd h (by simp)
    | some p =>
      obtain ⟨c', s'⟩ := p
      rw [hn] at h
      have hc := next_some_not_crashed pf srv conn m script _ hn
      obtain ⟨bs, hw, _⟩ := reqStep_one_write pf srv conn m script hc
      have := ih s' c' _ h
      simp only [hw]; simp; omega


/-- A pipeline of complete values followed by bytes that do not parse to a value (an error or nothing at
all): the loop does exactly what it does for the complete values alone, then ends. -/
theorem serveLoop_steps_tail (pf : FloatOracle) (ms : List Msg) (hw : wfs ms) (t : Bytes)
    (ht : ∀ m r, parse (t.length + 1) t ≠ .ok m r)
    (n : Nat) (hn : ms.length < n) (srv : SrvSt) (conn : ConnSt) (script : List HRes) :
    serveLoop pf n srv conn (encs ms ++ t) script = steps pf srv conn ms script := by
  induction ms generalizing n srv conn script with
  | nil =>
    obtain ⟨n, rfl⟩ : ∃ n', n = n' + 1 := ⟨n - 1, by omega⟩
    simp only [encs, List.nil_append, serveLoop, steps]
    cases hp : parse (t.length + 1) t with
    | ok m r => exact absurd hp (ht m r)
    | eof => rfl
    | err => rfl
    | fuel => rfl
  | cons m ms ih =>
    obtain ⟨n, rfl⟩ : ∃ n', n = n' + 1 := ⟨n - 1, by simp at hn; omega⟩
    simp only [wfs] at hw
    have hd := depth_lt_enc m (wf_noAbsent m hw.1)
    have hp : parse ((encs (m :: ms) ++ t).length + 1) (encs (m :: ms) ++ t) = .ok m (encs ms ++ t) := by
      simp only [encs, List.append_assoc]
      exact parse_enc m hw.1 _ (by simp; omega) (encs ms ++ t)
    unfold serveLoop steps
    rw [hp]
    simp only [List.cons_append, List.nil_append, List.cons.injEq, true_and]
    congr 1
    cases hnx : (reqStep pf srv conn m script).next with
    | none => rfl
    | some p =>
      obtain ⟨c', s'⟩ := p
      simp only
      exact ih hw.2 n (by simp at hn; omega) _ _ _

end GoRedis
