import GoRedisModel.Model.Dec
namespace GoRedis

theorem digit_byte (d : Nat) (h : d < 10) :
    (48 ≤ digit d ∧ digit d ≤ 57) ∧ (digit d).toNat - 48 = d ∧ digit d ≠ CR ∧ digit d ≠ LF := by
  have : d = 0 ∨ d = 1 ∨ d = 2 ∨ d = 3 ∨ d = 4 ∨ d = 5 ∨ d = 6 ∨ d = 7 ∨ d = 8 ∨ d = 9 := by omega
  rcases this with h|h|h|h|h|h|h|h|h|h <;> subst h <;> decide

theorem digitsVal_snoc (xs : Bytes) (d : Nat) (hd : d < 10) (acc : Nat) :
    digitsVal (xs ++ [digit d]) acc = (digitsVal xs acc).map (fun v => v * 10 + d) := by
  induction xs generalizing acc with
  | nil =>
    have := digit_byte d hd
    simp [digitsVal, this.1, this.2.1]
  | cons b bs ih =>
    simp only [List.cons_append, digitsVal]
    split
    · exact ih _
    · rfl

theorem digitsVal_natDigits (f n : Nat) (h : n < 10 ^ f) (hf : 0 < f) :
    digitsVal (natDigits f n) 0 = some n := by
  induction f generalizing n with
  | zero => omega
  | succ f ih =>
    unfold natDigits
    split
    · rename_i h10
      have := digit_byte n h10
      simp [digitsVal, this.1, this.2.1]
    · rename_i h10
      have hlt : n / 10 < 10 ^ f := by
        rw [Nat.pow_succ] at h
        omega
      have hf' : 0 < f := by
        rcases f with _ | f
        · simp at h; omega
        · omega
      rw [digitsVal_snoc _ _ (Nat.mod_lt _ (by omega)), ih _ hlt hf']
      simp; omega

theorem lt_ten_pow (n : Nat) : n < 10 ^ (n + 1) := by
  have : n + 1 ≤ 10 ^ (n+1) := by
    have := @Nat.lt_pow_self (n+1) 10 (by omega)
    omega
  omega

theorem digitsVal_dec (n : Nat) : digitsVal (dec n) 0 = some n :=
  digitsVal_natDigits _ _ (lt_ten_pow n) (by omega)

theorem natDigits_ne_nil (f n : Nat) (hf : 0 < f) : natDigits f n ≠ [] := by
  cases f with
  | zero => omega
  | succ f => unfold natDigits; split <;> simp

theorem dec_ne_nil (n : Nat) : dec n ≠ [] := natDigits_ne_nil _ _ (by omega)

theorem natDigits_digits (f n : Nat) : ∀ b ∈ natDigits f n, 48 ≤ b ∧ b ≤ 57 := by
  induction f generalizing n with
  | zero => simp [natDigits]
  | succ f ih =>
    unfold natDigits
    split
    · rename_i h; intro b hb; simp at hb; subst hb; exact (digit_byte n h).1
    · intro b hb
      simp at hb
      rcases hb with hb | hb
      · exact ih _ _ hb
      · subst hb; exact (digit_byte _ (Nat.mod_lt _ (by omega))).1

theorem dec_digits (n : Nat) : ∀ b ∈ dec n, 48 ≤ b ∧ b ≤ 57 := natDigits_digits _ _

theorem dec_no_cr (n : Nat) : CR ∉ dec n := by
  intro h; exact absurd (dec_digits n _ h).1 (by decide)

theorem dec_no_lf (n : Nat) : LF ∉ dec n := by
  intro h; exact absurd (dec_digits n _ h).1 (by decide)

/-- `Atoi (Itoa n) = n` for non-negative 64-bit values. -/
theorem atoi_dec (n : Nat) (h : n ≤ maxInt) : atoi (dec n) = some (n : Int) := by
  have hne : dec n ≠ [] := dec_ne_nil n
  have hd := dec_digits n
  have hv := digitsVal_dec n
  unfold atoi
  match hdn : dec n with
  | [] => exact absurd hdn hne
  | b :: bs =>
    have hb := hd b (by rw [hdn]; simp)
    have h45 : b ≠ 45 := by intro h; subst h; exact absurd hb.1 (by decide)
    have h43 : b ≠ 43 := by intro h; subst h; exact absurd hb.1 (by decide)
    split
    · simp_all
    · simp_all
    · simp_all
    · rename_i heq
      simp_all

/-- `Atoi (Itoa i) = i` for every 64-bit `int`. -/
theorem atoi_itoa (i : Int) (h : inInt64 i = true) : atoi (itoa i) = some i := by
  simp only [inInt64, decide_eq_true_eq] at h
  cases i with
  | ofNat n =>
    have : n ≤ maxInt := by unfold maxInt; simp at h; omega
    simpa [itoa] using atoi_dec n this
  | negSucc n =>
    have hn : n + 1 ≤ maxInt + 1 := by
      unfold maxInt
      have h1 := h.1
      rw [Int.negSucc_eq] at h1
      omega
    have hne : dec (n+1) ≠ [] := dec_ne_nil _
    have hv := digitsVal_dec (n+1)
    simp only [itoa, atoi, hne, hv, hn, if_false, if_true]
    rw [Int.negSucc_eq]
    simp

end GoRedis
