import GoRedisModel.Proofs.Shapes
namespace GoRedis

/-- the options of SET, as the Redis command reference lists them -/
inductive SetItem where
  | nx | xx | keepttl | get
  | exp (k : ExpKind) (n : Int)
deriving Repr, DecidableEq

def ExpKind.kw : ExpKind → Bytes
  | .ex => b!"EX" | .px => b!"PX" | .exat => b!"EXAT" | .pxat => b!"PXAT"

def SetItem.kw : SetItem → Bytes
  | .nx => b!"NX" | .xx => b!"XX" | .keepttl => b!"KEEPTTL" | .get => b!"GET"
  | .exp k _ => k.kw

/-- an option as a client may write it: the keyword in any letter case, and the token of its integer -/
structure Spelled where
  item : SetItem
  kw : Bytes
  tok : Bytes := []

def Spelled.ok (s : Spelled) : Prop :=
  upper s.kw = s.item.kw ∧ (match s.item with | .exp _ n => atoi s.tok = some n ∧ 1 ≤ n | _ => True)

def Spelled.msgs (s : Spelled) : List Msg :=
  match s.item with
  | .exp _ _ => [B s.kw, B s.tok]
  | _ => [B s.kw]

def SetOpt.apply (o : SetOpt) : SetItem → SetOpt
  | .nx => { o with nx := true }
  | .xx => { o with xx := true }
  | .keepttl => { o with keepttl := true }
  | .get => { o with get := true }
  | .exp k n => { o with expire := some (k, n) }

/-- the option may still be given: NX/XX at most one of the two, every other option at most once,
EX/PX/EXAT/PXAT at most one of the four -/
def SetOpt.admits (o : SetOpt) : SetItem → Bool
  | .nx => !o.nx && !o.xx
  | .xx => !o.nx && !o.xx
  | .keepttl => !o.keepttl
  | .get => !o.get
  | .exp _ _ => o.expire.isNone

def Compat : SetOpt → List SetItem → Prop
  | _, [] => True
  | o, i :: is => o.admits i = true ∧ Compat (o.apply i) is

theorem ExpKind.kw_cases (k : ExpKind) :
    k.kw ≠ b!"NX" ∧ k.kw ≠ b!"XX" ∧ k.kw ≠ b!"KEEPTTL" ∧ k.kw ≠ b!"GET" ∧
    ((if k.kw = b!"EX" then some ExpKind.ex else if k.kw = b!"PX" then some .px
      else if k.kw = b!"EXAT" then some .exat else if k.kw = b!"PXAT" then some .pxat else none) = some k) := by
  cases k <;> decide

/-- one well-spelled, admissible option is consumed and recorded -/
theorem setOpts_step (cmd : Bytes) (o : SetOpt) (s : Spelled) (hok : s.ok) (ha : o.admits s.item = true) (tail : List Msg) :
    setOpts cmd o (s.msgs ++ tail) = setOpts cmd (o.apply s.item) tail := by
  obtain ⟨hu, hv⟩ := hok
  cases hi : s.item with
  | nx =>
    rw [hi] at hu ha
    simp [SetOpt.admits] at ha
    simp [Spelled.msgs, hi, setOpts, B, msgStr, hu, SetItem.kw, ha, SetOpt.apply]
  | xx =>
    rw [hi] at hu ha
    simp [SetOpt.admits] at ha
    simp [Spelled.msgs, hi, setOpts, B, msgStr, hu, SetItem.kw, ha, SetOpt.apply]
  | keepttl =>
    rw [hi] at hu ha
    simp [SetOpt.admits] at ha
    simp [Spelled.msgs, hi, setOpts, B, msgStr, hu, SetItem.kw, ha, SetOpt.apply]
  | get =>
    rw [hi] at hu ha
    simp [SetOpt.admits] at ha
    simp [Spelled.msgs, hi, setOpts, B, msgStr, hu, SetItem.kw, ha, SetOpt.apply]
  | exp k n =>
    rw [hi] at hu ha hv
    simp only [SetItem.kw] at hu
    simp only [SetOpt.admits] at ha
    obtain ⟨h1, h2, h3, h4, h5⟩ := ExpKind.kw_cases k
    have hn : ¬ n < 1 := by omega
    have hsome : o.expire.isSome = false := by
      cases ho : o.expire <;> simp [ho] at ha ⊢
    simp only [Spelled.msgs, hi, List.cons_append, List.nil_append, setOpts, B, msgStr, hu, h1, h2, h3, h4, h5,
      if_false, hsome, msgInt, hv.1, Option.elim, hn, SetOpt.apply]
    simp

/-- **SET options in any combination and any order**: a list of well-spelled options in which NX/XX occur
at most once in total, KEEPTTL and GET at most once each and at most one of EX/PX/EXAT/PXAT — whatever
their order and letter case — is decoded into exactly those options. -/
theorem setOpts_items (cmd : Bytes) (o : SetOpt) (ss : List Spelled) (hok : ∀ s ∈ ss, s.ok)
    (hc : Compat o (ss.map Spelled.item)) (tail : List Msg) :
    setOpts cmd o (ss.flatMap Spelled.msgs ++ tail) = setOpts cmd ((ss.map Spelled.item).foldl SetOpt.apply o) tail := by
  induction ss generalizing o with
  | nil => simp
  | cons s ss ih =>
    simp only [List.map, Compat] at hc
    simp only [List.flatMap_cons, List.append_assoc, List.map, List.foldl]
    rw [setOpts_step cmd o s (hok s (by simp)) hc.1]
    exact ih _ (fun t ht => hok t (by simp [ht])) hc.2

theorem setOpts_nil (cmd : Bytes) (o : SetOpt) : setOpts cmd o [] = .ok o := rfl

/-- an option that may no longer be given (NX after XX, a second expiry, a repeated KEEPTTL/GET …) is an error -/
theorem setOpts_conflict (cmd : Bytes) (o : SetOpt) (s : Spelled) (hu : upper s.kw = s.item.kw)
    (ha : o.admits s.item = false) (tail : List Msg) : ∃ e, setOpts cmd o (s.msgs ++ tail) = .error e := by
  cases hi : s.item with
  | nx =>
    rw [hi] at hu ha
    simp [SetOpt.admits] at ha
    have : (o.nx || o.xx) = true := by cases h1 : o.nx <;> cases h2 : o.xx <;> simp_all
    (simp [Spelled.msgs, hi, setOpts, B, msgStr, hu, SetItem.kw, this] <;> first | done | exact ⟨_, rfl⟩)
  | xx =>
    rw [hi] at hu ha
    simp [SetOpt.admits] at ha
    have : (o.nx || o.xx) = true := by cases h1 : o.nx <;> cases h2 : o.xx <;> simp_all
    (simp [Spelled.msgs, hi, setOpts, B, msgStr, hu, SetItem.kw, this] <;> first | done | exact ⟨_, rfl⟩)
  | keepttl =>
    rw [hi] at hu ha
    simp [SetOpt.admits] at ha
    (simp [Spelled.msgs, hi, setOpts, B, msgStr, hu, SetItem.kw, ha] <;> first | done | exact ⟨_, rfl⟩)
  | get =>
    rw [hi] at hu ha
    simp [SetOpt.admits] at ha
    (simp [Spelled.msgs, hi, setOpts, B, msgStr, hu, SetItem.kw, ha] <;> first | done | exact ⟨_, rfl⟩)
  | exp k n =>
    rw [hi] at hu ha
    simp only [SetItem.kw] at hu
    simp only [SetOpt.admits] at ha
    obtain ⟨h1, h2, h3, h4, h5⟩ := ExpKind.kw_cases k
    have hsome : o.expire.isSome = true := by
      cases ho : o.expire <;> simp [ho] at ha ⊢
    (simp only [Spelled.msgs, hi, List.cons_append, List.nil_append, setOpts, B, msgStr, hu, h1, h2, h3, h4, h5,
      if_false, hsome, if_true] <;> first | done | exact ⟨_, rfl⟩)

/-- an expiry option with a non-positive, non-numeric, null or missing value is an error -/
theorem setOpts_bad_expiry (cmd : Bytes) (o : SetOpt) (k : ExpKind) (kw : Bytes) (hu : upper kw = k.kw)
    (rest : List Msg)
    (hbad : rest = [] ∨ (∃ r, rest = .bulk none :: r) ∨ (∃ tok r, rest = B tok :: r ∧ atoi tok = none) ∨
            (∃ tok r n, rest = B tok :: r ∧ atoi tok = some n ∧ n < 1)) :
    ∃ e, setOpts cmd o (B kw :: rest) = .error e := by
  obtain ⟨h1, h2, h3, h4, h5⟩ := ExpKind.kw_cases k
  cases hs : o.expire.isSome with
  | true => (simp only [setOpts, B, msgStr, hu, h1, h2, h3, h4, h5, if_false, hs, if_true] <;> first | done | exact ⟨_, rfl⟩)
  | false =>
    rcases hbad with rfl | ⟨r, rfl⟩ | ⟨tok, r, rfl, ht⟩ | ⟨tok, r, n, rfl, ht, hn⟩
    · (simp only [setOpts, B, msgStr, hu, h1, h2, h3, h4, h5, if_false, hs]; simp <;> first | done | exact ⟨_, rfl⟩)
    · (simp only [setOpts, B, msgStr, hu, h1, h2, h3, h4, h5, if_false, hs, msgInt]; simp <;> first | done | exact ⟨_, rfl⟩)
    · (simp only [setOpts, B, msgStr, hu, h1, h2, h3, h4, h5, if_false, hs, msgInt, ht, Option.elim]; simp <;> first | done | exact ⟨_, rfl⟩)
    · (simp only [setOpts, B, msgStr, hu, h1, h2, h3, h4, h5, if_false, hs, msgInt, ht, Option.elim, hn, if_true]; simp <;> first | done | exact ⟨_, rfl⟩)

end GoRedis
