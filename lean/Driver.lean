import GoRedisModel.Model.Wire
import GoRedisModel.Model.ParserImpl
import GoRedisModel.Model.Show
import GoRedisModel.Proofs.Interleave
import GoRedisModel.Model.RefStore
import GoRedisModel.Model.Lifecycle
import GoRedisModel.Model.Discipline
import GoRedisModel.Model.Lin
/-! Line-protocol driver: one case per input line, one canonical result per output line.
Built as the core-only executable `modeldriver`; the definitions it runs are the ones the theorems are about. -/
open GoRedis

/-- run the chunked parser to the end of the stream: "v <tree> ; v <tree> ; eof|err|panic|limit" -/
def runChunks : Nat → Nat → Nat → Reader → List String → List String
  | 0, _, _, _, acc => (acc.reverse ++ ["fuel"])
  | _, 0, _, _, acc => (acc.reverse ++ ["limit"])
  | k+1, lim+1, f, r, acc =>
    match inext f r with
    | .ok m r' =>
      if lim = 0 then (s!"v {showMsg m}" :: acc).reverse ++ ["limit"]
      else runChunks k lim f r' (s!"v {showMsg m}" :: acc)
    | .eof => acc.reverse ++ ["eof"]
    | .err => acc.reverse ++ ["err"]
    | .panic => acc.reverse ++ ["panic"]
    | .fuel => acc.reverse ++ ["fuel"]

/-- the first value of a stream as (payload length, kind) and how the stream ended behind it -/
def inextAllShow (chunks : List Bytes) : Option (Nat × Char) × String :=
  let r : Reader := ⟨chunks⟩
  let f := r.rest.length + 1
  let endOf : IRes → String
    | .ok _ _ => "limit" | .eof => "eof" | .err => "err" | .panic => "panic" | .fuel => "fuel"
  match inext f r with
  | .ok m r' =>
    let d : Nat × Char := match m with
      | .bulk (some p) => (p.length, 'b')
      | .bulk none => (0, 'n')
      | .line _ p => (p.length, 'l')
      | _ => (0, 'a')
    (some d, endOf (inext f r'))
  | e => (none, endOf e)

def streamOutcome (chunks : List Bytes) (maxValues : Nat) : String :=
  let r : Reader := ⟨chunks⟩
  let n := r.rest.length
  String.intercalate " ; " (runChunks (n + 2) maxValues (n + 1) r [])

def afterBar : List String → List String
  | [] => []
  | "|" :: ts => ts
  | _ :: ts => afterBar ts


/-- split a token list at "|" -/
def splitBar : List String → List (List String)
  | [] => [[]]
  | t :: ts =>
    match splitBar ts with
    | [] => [[t]]
    | s :: ss => if t == "|" then [] :: s :: ss else (t :: s) :: ss

def splitSemi : List String → List (List String)
  | [] => [[]]
  | t :: ts =>
    match splitSemi ts with
    | [] => [[t]]
    | s :: ss => if t == ";" then [] :: s :: ss else (t :: s) :: ss

def parseResult (ts : List String) : Option HRes :=
  match ts with
  | "c" :: _ :: rest => parseResult rest     -- an expected-call annotation (used by the harness' double only)
  | "r" :: rest => (parseMsgToks rest).map fun (m, _) => { msg := m }
  | ["e", h] => some { err := some (unhex h) }
  | "re" :: h :: rest => (parseMsgToks rest).map fun (m, _) => { msg := m, err := some (unhex h) }
  | _ => none

def parseScript (ts : List String) : List HRes :=
  (splitSemi ts).filterMap fun r => if r.isEmpty then none else parseResult r

/-- float table "f <tokhex>=<bits16>" entries; tokens absent from the table do not parse as floats -/
def parseFloatTable (ts : List String) : List (Bytes × UInt64) :=
  ts.filterMap fun t =>
    match t.splitOn "=" with
    | [k, v] => some (unhex k, (unhexChars v.toList).foldl (fun acc b => acc * 256 + b.toUInt64) 0)
    | _ => none

structure ServeCase where
  pw : Option Bytes := none
  noHandler : Bool := false
  trace : Bool := false
  blk : Bool := false
  app : List Bytes := []
  segs : List Bytes := []
  script : List HRes := []
  floats : List (Bytes × UInt64) := []

def parseServeCase (ts : List String) : ServeCase :=
  let secs := splitBar ts
  let cfg := secs.headD []
  let c : ServeCase := cfg.foldl (fun c t =>
    if t.startsWith "pw=" then { c with pw := some (unhex (t.drop 3).toString) }
    else if t == "nohandler" then { c with noHandler := true }
    else if t == "trace" then { c with trace := true }
    else if t == "blk" then { c with blk := true }
    else if t.startsWith "app=" then { c with app := ((t.drop 4).toString.splitOn ",").map unhex }
    else c) {}
  { c with segs := (secs.getD 1 []).map unhex, script := parseScript (secs.getD 2 []),
           floats := parseFloatTable (secs.getD 3 []) }

def countWr : List Ev → Nat
  | [] => 0
  | .wr _ :: es => countWr es + 1
  | _ :: es => countWr es

def countRoot : List Ev → Nat
  | [] => 0
  | .rootStart :: es => countRoot es + 1
  | _ :: es => countRoot es

def runServeCase (c : ServeCase) : String :=
  let pf : FloatOracle := fun tok => c.floats.lookup tok
  let srv : SrvSt := { authPw := c.pw, hasHandler := !c.noHandler, appGet := c.app,
                       config := (match c.pw with | some p => [(b!"requirepass", p)] | none => []) ++ [(b!"port", b!"6379")] }
  let input := c.segs.flatten
  let evs := serve pf srv c.pw.isSome input c.script
  let toks := showTrace c.trace evs {}
  let blk := if c.blk then
      let ends := valueEnds (input.length + 1) input 0
      let served := countWr evs
      let quit := countRoot evs == served
      " # B " ++ String.intercalate " " ((blockCounts ends served quit (cumulative (c.segs.map List.length) 0)).map toString)
    else ""
  String.intercalate " " toks ++ blk

/-- pairs "<conn id> <hex request>" -/
def parseSchedule : List String → List (Nat × Bytes)
  | i :: h :: rest => (i.toNat?.getD 0, unhex h) :: parseSchedule rest
  | _ => []

def showSysEv (i : Nat) : Ev → Option String
  | .wr bs => some s!"c{i}:wr:{canonReply bs}"
  | .hcall c v => some s!"c{i}:hc:{showCall c}@{v.db},{b01 v.authorized},own"
  | _ => none

/-- run a schedule request by request, rendering the tagged events; a connection that ends is closed -/
def runSchedule (pf : FloatOracle) : Sys → List (Nat × Bytes) → List String
  | _, [] => []
  | s, (i, raw) :: rest =>
    match parse (raw.length + 1) raw with
    | .ok m _ =>
      let alive := match s.conns[i]? with | some (some _) => true | _ => false
      let (s1, evs) := s.step pf i m
      let ended := alive && (match s1.conns[i]? with | some (some _) => false | _ => true)
      evs.filterMap (showSysEv i) ++ (if ended then [s!"c{i}:close"] else []) ++ runSchedule pf s1 rest
    | _ => runSchedule pf s rest

def runSysCase (ts : List String) : String :=
  let secs := splitBar ts
  let cfg := secs.headD []
  let n := (cfg.filterMap fun t => if t.startsWith "n=" then (t.drop 2).toString.toNat? else none).headD 1
  let pw := (cfg.filterMap fun t => if t.startsWith "pw=" then some (unhex (t.drop 3).toString) else none).head?
  let script := parseScript (secs.getD 1 [])
  let floats := parseFloatTable (secs.getD 2 [])
  let pf : FloatOracle := fun tok => floats.lookup tok
  let srv : SrvSt := { authPw := pw, config := (match pw with | some p => [(b!"requirepass", p)] | none => []) ++ [(b!"port", b!"6379")] }
  let s : Sys := { srv := srv, conns := List.replicate n (some { authorized := !pw.isSome }), script := script }
  String.intercalate " " (runSchedule pf s (parseSchedule (secs.getD 3 [])))

def globAlphabet : Bytes := b!"ab*?.+(|$"

/-- all words over the alphabet with length ≤ n, shortest first, in the harness' order -/
def wordsUpTo (alpha : Bytes) : Nat → List Bytes × List Bytes
  | 0 => ([[]], [[]])
  | n+1 =>
    let (all, frontier) := wordsUpTo alpha n
    let next := frontier.flatMap fun w => alpha.map fun c => w ++ [c]
    (all ++ next, next)

def packBits (bits : List Bool) : String :=
  let padded := bits ++ List.replicate ((4 - bits.length % 4) % 4) false
  let rec go : List Bool → List Char
    | a :: b :: c :: d :: rest =>
      hexDigit ((if a then 8 else 0) + (if b then 4 else 0) + (if c then 2 else 0) + (if d then 1 else 0)) :: go rest
    | _ => []
  toString padded.length ++ ":" ++ String.ofList (go padded)

def digitsNat (d : Bytes) : Option Nat :=
  if d.isEmpty then none else d.foldl (fun acc b => acc.bind fun v => if 48 ≤ b ∧ b ≤ 57 then some (v * 10 + (b.toNat - 48)) else none) (some 0)

/-- score tokens of the exactly representable pool: `-?digits(.5)?`, `inf`, `+inf`, `-inf` -/
def parseScoreTok (t : Bytes) : Option Bound :=
  if t = b!"inf" || t = b!"+inf" then some .posInf
  else if t = b!"-inf" then some .negInf
  else
    let (neg, body) := match t with | 45 :: r => (true, r) | r => (false, r)
    let (ip, half) := if body.length ≥ 2 ∧ body.drop (body.length - 2) = b!".5" then (body.take (body.length - 2), true) else (body, false)
    match digitsNat ip with
    | none => none
    | some v => let h : Int := (v : Int) * 2 + (if half then 1 else 0); some (.fin (if neg then -h else h))

def runXServe (ts : List String) : String :=
  let secs := splitBar ts
  let stream := (secs.getD 1 []).map unhex |>.flatten
  let floats := parseFloatTable (secs.getD 2 [])
  let pf : FloatOracle := fun tok => floats.lookup tok
  let sc : ScoreTable := fun bits => (floats.find? fun p => p.2 == bits).bind fun p => parseScoreTok p.1
  let evs := serveLoopH pf (refHandle sc) (stream.length + 1) { config := [(b!"port", b!"6379")] } { authorized := true } stream ([] : Store)
  String.intercalate " " ((showTrace false (evs ++ [.close]) {}).filter fun t => !t.startsWith "hc:")

/-- `conc4 | preload stream | floats | conn 0 stream | conn 1 stream ...`: the preload is executed first; then every
connection's read-only requests are answered from the same store, whatever the other connections do.  Output: per
connection the exact bytes of its replies. -/
def runConc4 (ts : List String) : String :=
  let secs := splitBar ts
  let pre := ((secs.getD 1 []).map unhex).flatten
  let floats := parseFloatTable (secs.getD 2 [])
  let pf : FloatOracle := fun tok => floats.lookup tok
  let sc : ScoreTable := fun bits => (floats.find? fun p => p.2 == bits).bind fun p => parseScoreTok p.1
  let writes (stream : Bytes) : List Bytes :=
    (serveLoopH pf (refHandle sc) (stream.length + 1) { config := [(b!"port", b!"6379")] } { authorized := true } stream ([] : Store)).filterMap
      fun e => match e with | .wr bs => some bs | _ => none
  let nPre := (writes pre).length
  let conns := secs.drop 3
  let outs := conns.zipIdx.map fun (toks, i) =>
    let stream := pre ++ (toks.map unhex).flatten
    s!"c{i}:{hex ((writes stream).drop nPre).flatten}"
  String.intercalate " " outs

def showRes (r : HRes) : String :=
  match r.err with
  | some t => (match r.msg with
      | .absent => s!"e {hex t}"
      | m => s!"re {hex t} {showMsg m}")
  | none => s!"r {showMsg r.msg}"

/-- `prep c12prog | <stream> | <floats> | <extra>`: run the program against the reference store and emit the
`serve` case whose script is the sequence of results the reference store gave -/
def prepC12 (ts : List String) : String :=
  let secs := splitBar ts
  let streamToks := secs.getD 1 []
  let stream := (streamToks.map unhex).flatten
  let floats := parseFloatTable (secs.getD 2 [])
  let pf : FloatOracle := fun tok => floats.lookup tok
  let sc : ScoreTable := fun bits => (floats.find? fun p => p.2 == bits).bind fun p => parseScoreTok p.1
  let h : HCall → (Store × List (HCall × HRes)) → HRes × (Store × List (HCall × HRes)) := fun c st =>
    let (r, s') := refHandle sc c st.1
    (r, (s', (c, r) :: st.2))
  let run := serveLoopFinal pf h (stream.length + 1) { config := [(b!"port", b!"6379")] } { authorized := true } stream (([] : Store), ([] : List (HCall × HRes)))
  let script := String.intercalate " ; " (run.2.reverse.map fun p => s!"c {showCall p.1} {showRes p.2}")
  s!"serve - | {String.intercalate " " streamToks} | {script} | {String.intercalate " " (secs.getD 2 [])} | {String.intercalate " " (secs.getD 3 [])}"

def runLifeCase (ts : List String) : String :=
  let secs := splitBar ts
  let cfgToks := secs.headD []
  let cfg : LifeCfg := cfgToks.foldl (fun c t =>
    if t == "plain" then { c with plain := true }
    else if t == "tls" || t == "tlsfiles" then { c with tls := true }
    else if t.startsWith "cn=" then { c with cn := some (t.drop 3).toString }
    else if t.startsWith "pw=" then { c with pw := true }
    else c) {}
  let acts := secs.getD 1 []
  -- the domain of portoff / cfgport: until the port is restored only Stop and observations occur
  let inDomain : Bool := (acts.foldl (fun (st : Bool × Bool) a =>
      let kind := (a.splitOn ":").headD ""
      if kind == "portoff" || kind == "cfgport" then (st.1, true)
      else if kind == "porton" then (st.1, false)
      else if st.2 && !(kind == "stop" || kind == "obs" || kind == "alive" || kind == "cclose") then (false, st.2)
      else st) (true, false)).1
  if !inDomain then "out-of-domain" else
  String.intercalate " " (lifeRun cfg {} acts)

def fnvAdd (h : UInt64) (bs : Bytes) : UInt64 := bs.foldl (fun h b => (h ^^^ b.toUInt64) * 1099511628211) h

/-- what matters of one serialization: its first 24 bytes, its length (decimal), its last two bytes -/
def enclenDigest (h : UInt64) (b : Bytes) : UInt64 :=
  let n := b.length
  let h := fnvAdd h (b.take 24)
  let h := fnvAdd h (toString n).toUTF8.toList
  if n ≥ 2 then fnvAdd h (b.drop (n - 2)) else h

def handleLine (toks : List String) : String :=
  match toks with
  | "enc" :: ts =>
    match parseMsgToks ts with
    | some (m, _) => match encGo m with
      | some b => hex b
      | none => "panic"
    | none => "bad-case"
  | ["enclen", lo, hi] =>
    match lo.toNat?, hi.toNat? with
    | some lo, some hi =>
      let digest := (List.range (hi - lo)).foldl (fun h k =>
        let n := lo + k
        let p : Bytes := (List.range n).map fun i => UInt8.ofNat ((i * 7 + n) % 256)
        let b := enc (.bulk (some p))
        let ab := enc (.arr [.bulk (some p), .line .int b!"7"])
        enclenDigest (enclenDigest h b) ab) (14695981039346656037 : UInt64)
      s!"digest={hex16 digest}"
    | _, _ => "bad-case"
  | "rt" :: ts =>
    match parseMsgToks ts with
    | some (m, _) =>
      match encGo m with
      | none => "panic"
      | some b =>
        let back := streamOutcome [b ++ b!":7\r\n"] 4
        let re := match parse (b.length + 1) b with
          | .ok m' _ => (match encGo m' with | some b' => hex b' | none => "panic")
          | _ => "none"
        s!"enc={hex b} back={back} reenc={re}"
    | none => "bad-case"
  | "serve" :: ts => runServeCase (parseServeCase ts)
  | "sys" :: ts => runSysCase ts
  | "xserve" :: ts => runXServe ts
  | "sserve" :: ts => runXServe ts
  | "conc4" :: ts => runConc4 ts
  -- KEYS p and SCAN 0 MATCH p select, from the stored keys, exactly the keys the glob matches (both the same)
  | "keyscan" :: ph :: ks =>
    let p := unhex ph
    let bits := String.ofList (ks.map fun k => if globMatch p (unhex k) then '1' else '0')
    s!"keys={bits} scan={bits}"
  -- every SCAN call filters with the pattern it carries itself (`scanOpts`: the regex handed to the handler is compiled
  -- from this call's MATCH argument, whatever the cursor): what a continued call returns is selected by its own pattern
  | "scanswitch" :: _ => "sound"
  -- every request's span block is balanced whatever the other connections do (`C20_balanced` is per connection; the
  -- dispatch lock adds no span)
  | "conc20" :: _ => "balanced"
  | "life" :: ts => runLifeCase ts
  | "race" :: _ => racePrediction
  -- a connection blocked in a write is its own goroutine's business: every other connection is served
  -- (`connStep_static`, `C08_per_connection`); blocking itself is runtime behaviour outside the model
  | "stallw" :: _ => "witness-served"
  | "cutsock" :: _ => "answered-all released"
  | "stopinflight" :: _ => "state-kept"
  | "pollchurn" :: _ => "released"
  | "flood07" :: _ => "witness-served"
  | "massdisc" :: _ => "witness-served"
  | "cfgstorm" :: _ => "witness-served"
  -- a crash is contained in its connection (`C07_panic_is_contained`, `C08_per_connection`)
  | "panicw" :: _ => "witness-served"
  -- a reply is one write of one complete frame (`C04_every_write_is_a_frame`); how long the transport takes to
  -- deliver it is not the loop's business
  | "stallr" :: _ => "replies-complete"
  -- every request of every connection is answered (`C03_one_reply_each` per connection; connections are served by
  -- independent loops, `C13_noninterference`)
  | "conc3" :: _ => "answered"
  | "linhist" :: ts =>
    let ops : List (Lin.Op Bytes Bytes) := ts.filterMap fun t =>
      match t.splitOn ":" with
      | [c, i, r, q, p] => some { client := c.toNat!, inv := i.toNat!, res := r.toNat!, cmd := unhex q, out := unhex p }
      | _ => none
    if linCheck ops then "linearizable" else "not-linearizable"
  | "prep" :: "c12prog" :: ts => prepC12 ts
  | ["globall", n, ph] =>
    let pat := unhex ph
    packBits (((wordsUpTo globAlphabet (n.toNat?.getD 0)).1).map (globMatch pat))
  | "glob" :: ph :: ks =>
    let pat := unhex ph
    packBits (ks.map fun k => globMatch pat (unhex k))
  | "chunks" :: ts => streamOutcome ((afterBar ts).map unhex) 1048576
  -- the last bytes delivered together with io.EOF: the same stream, the same values (the end of the stream is the end
  -- of the stream however it is announced)
  | "chunkse" :: ts => streamOutcome ((afterBar ts).map unhex) 1048576
  | "hostile" :: hs => streamOutcome (hs.map unhex) 1048576
  -- `deep <depth> <tail>`: `*1\r\n` nested <depth> times, then <tail> (compact form of a hostile stream near the 1 MiB bound)
  -- every well-formed bulk string up to the limit parses back to itself followed by the clean end of stream
  -- (`parse_enc`, `C02_sequence`, for every length at once)
  | ["bulksweep", _, _] => "ok"
  | ["bulk", decl, present, t] =>
    let stream := b!"$" ++ (toString decl.toNat!).toUTF8.toList ++ b!"\r\n" ++ List.replicate present.toNat! 97 ++ unhex t
    match inextAllShow [stream] with
    | (some (len, kind), e) => s!"v len={len} kind={kind} ; {e}"
    | (none, e) => e
  | ["longline", pre, ty, fill, n, tail, cut] =>
    let stream := unhex pre ++ unhex ty ++ (List.replicate n.toNat! (unhex fill)).flatten ++ unhex tail
    let c := cut.toNat!
    streamOutcome (if c > 0 && c < stream.length then [stream.take c, stream.drop c] else [stream]) 1048576
  | ["deep", d, t] => streamOutcome [(List.replicate d.toNat! b!"*1\r\n").flatten ++ unhex t] 1048576
  | ["ctor", "int", n] =>
    match n.toInt? with
    | some i =>
      let b := enc (.line .int (itoa i))
      let back := match parse (b.length + 1) b with
        | .ok (.line .int p) _ => (match atoi p with | some v => toString v | none => "atoi-fail")
        | _ => "parse-fail"
      s!"enc={hex b} back={back}"
    | none => "bad-case"
  | ["ctor", "status", h] => s!"enc={hex (enc (.line .str (unhex h)))}"
  | ["ctor", "error", h] => s!"enc={hex (enc (.line .err (unhex h)))}"
  | ["ctor", "bulk", h] => s!"enc={hex (enc (.bulk (some (unhex h))))}"
  | ["ctor", "nil"] => s!"enc={hex (enc (.bulk none))}"
  | ["ctor", "ok"] => s!"enc={hex (enc (.line .str b!"OK"))}"
  | "ctor" :: "strs" :: hs => s!"enc={hex (enc (.arr (hs.map fun h => .bulk (some (unhex h)))))}"
  | ["ctor", "float", _, fmt] => s!"enc={hex (enc (.bulk (some (unhex fmt))))} fmt={fmt}"
  | _ => "bad-op"


partial def loop (h : IO.FS.Stream) (out : IO.FS.Stream) : IO Unit := do
  let line ← h.getLine
  if line.isEmpty then return ()
  let toks := (line.trimAscii.toString.splitOn " ").filter (· ≠ "")
  out.putStrLn (handleLine toks)
  loop h out

def main : IO Unit := do
  let out ← IO.getStdout
  loop (← IO.getStdin) out
