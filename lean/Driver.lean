import GoRedisModel.Model.Wire
import GoRedisModel.Model.ParserImpl
/-! Line-protocol driver: one case per input line, one canonical result per output line.
Built as the core-only executable `modeldriver`; the definitions it runs are the ones the theorems are about. -/
open GoRedis

/-- run the chunked parser to the end of the stream: "v <tree> ; v <tree> ; eof|err|panic|limit" -/
def runChunks : Nat → Nat → Nat → Reader → List String → List String
  | 0, _, _, _, acc => (acc.reverse ++ ["fuel"])
  | _, 0, _, _, acc => (acc.reverse ++ ["limit"])
  | k+1, lim+1, f, r, acc =>
    match inext f r with
    | .ok m r' =>
      if lim = 0 then (s!"v {showMsg m}" :: acc).reverse ++ ["limit"]
      else runChunks k lim f r' (s!"v {showMsg m}" :: acc)
    | .eof => acc.reverse ++ ["eof"]
    | .err => acc.reverse ++ ["err"]
    | .panic => acc.reverse ++ ["panic"]
    | .fuel => acc.reverse ++ ["fuel"]

def streamOutcome (chunks : List Bytes) (maxValues : Nat) : String :=
  let r : Reader := ⟨chunks⟩
  let n := r.rest.length
  String.intercalate " ; " (runChunks (n + 2) maxValues (n + 1) r [])

def afterBar : List String → List String
  | [] => []
  | "|" :: ts => ts
  | _ :: ts => afterBar ts

def handleLine (toks : List String) : String :=
  match toks with
  | "enc" :: ts =>
    match parseMsgToks ts with
    | some (m, _) => match encGo m with
      | some b => hex b
      | none => "panic"
    | none => "bad-case"
  | "rt" :: ts =>
    match parseMsgToks ts with
    | some (m, _) =>
      match encGo m with
      | none => "panic"
      | some b =>
        let back := streamOutcome [b ++ b!":7\r\n"] 4
        let re := match parse (b.length + 1) b with
          | .ok m' _ => (match encGo m' with | some b' => hex b' | none => "panic")
          | _ => "none"
        s!"enc={hex b} back={back} reenc={re}"
    | none => "bad-case"
  | "chunks" :: ts => streamOutcome ((afterBar ts).map unhex) 1048576
  | "hostile" :: hs => streamOutcome (hs.map unhex) 1048576
  | ["ctor", "int", n] =>
    match n.toInt? with
    | some i =>
      let b := enc (.line .int (itoa i))
      let back := match parse (b.length + 1) b with
        | .ok (.line .int p) _ => (match atoi p with | some v => toString v | none => "atoi-fail")
        | _ => "parse-fail"
      s!"enc={hex b} back={back}"
    | none => "bad-case"
  | ["ctor", "status", h] => s!"enc={hex (enc (.line .str (unhex h)))}"
  | ["ctor", "error", h] => s!"enc={hex (enc (.line .err (unhex h)))}"
  | ["ctor", "bulk", h] => s!"enc={hex (enc (.bulk (some (unhex h))))}"
  | ["ctor", "nil"] => s!"enc={hex (enc (.bulk none))}"
  | ["ctor", "ok"] => s!"enc={hex (enc (.line .str b!"OK"))}"
  | "ctor" :: "strs" :: hs => s!"enc={hex (enc (.arr (hs.map fun h => .bulk (some (unhex h)))))}"
  | ["ctor", "float", _, fmt] => s!"enc={hex (enc (.bulk (some (unhex fmt))))} fmt={fmt}"
  | _ => "bad-op"

partial def loop (h : IO.FS.Stream) (out : IO.FS.Stream) : IO Unit := do
  let line ← h.getLine
  if line.isEmpty then return ()
  let toks := (line.trimAscii.toString.splitOn " ").filter (· ≠ "")
  out.putStrLn (handleLine toks)
  loop h out

def main : IO Unit := do
  let out ← IO.getStdout
  loop (← IO.getStdin) out
