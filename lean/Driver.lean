import GoRedisModel.Model.Wire
import GoRedisModel.Model.ParserImpl
import GoRedisModel.Model.Show
import GoRedisModel.Proofs.Interleave
/-! Line-protocol driver: one case per input line, one canonical result per output line.
Built as the core-only executable `modeldriver`; the definitions it runs are the ones the theorems are about. -/
open GoRedis

/-- run the chunked parser to the end of the stream: "v <tree> ; v <tree> ; eof|err|panic|limit" -/
def runChunks : Nat → Nat → Nat → Reader → List String → List String
  | 0, _, _, _, acc => (acc.reverse ++ ["fuel"])
  | _, 0, _, _, acc => (acc.reverse ++ ["limit"])
  | k+1, lim+1, f, r, acc =>
    match inext f r with
    | .ok m r' =>
      if lim = 0 then (s!"v {showMsg m}" :: acc).reverse ++ ["limit"]
      else runChunks k lim f r' (s!"v {showMsg m}" :: acc)
    | .eof => acc.reverse ++ ["eof"]
    | .err => acc.reverse ++ ["err"]
    | .panic => acc.reverse ++ ["panic"]
    | .fuel => acc.reverse ++ ["fuel"]

def streamOutcome (chunks : List Bytes) (maxValues : Nat) : String :=
  let r : Reader := ⟨chunks⟩
  let n := r.rest.length
  String.intercalate " ; " (runChunks (n + 2) maxValues (n + 1) r [])

def afterBar : List String → List String
  | [] => []
  | "|" :: ts => ts
  | _ :: ts => afterBar ts


/-- split a token list at "|" -/
def splitBar : List String → List (List String)
  | [] => [[]]
  | t :: ts =>
    match splitBar ts with
    | [] => [[t]]
    | s :: ss => if t == "|" then [] :: s :: ss else (t :: s) :: ss

def splitSemi : List String → List (List String)
  | [] => [[]]
  | t :: ts =>
    match splitSemi ts with
    | [] => [[t]]
    | s :: ss => if t == ";" then [] :: s :: ss else (t :: s) :: ss

def parseResult (ts : List String) : Option HRes :=
  match ts with
  | "r" :: rest => (parseMsgToks rest).map fun (m, _) => { msg := m }
  | ["e", h] => some { err := some (unhex h) }
  | "re" :: h :: rest => (parseMsgToks rest).map fun (m, _) => { msg := m, err := some (unhex h) }
  | _ => none

def parseScript (ts : List String) : List HRes :=
  (splitSemi ts).filterMap fun r => if r.isEmpty then none else parseResult r

/-- float table "f <tokhex>=<bits16>" entries; tokens absent from the table do not parse as floats -/
def parseFloatTable (ts : List String) : List (Bytes × UInt64) :=
  ts.filterMap fun t =>
    match t.splitOn "=" with
    | [k, v] => some (unhex k, (unhexChars v.toList).foldl (fun acc b => acc * 256 + b.toUInt64) 0)
    | _ => none

structure ServeCase where
  pw : Option Bytes := none
  noHandler : Bool := false
  trace : Bool := false
  blk : Bool := false
  segs : List Bytes := []
  script : List HRes := []
  floats : List (Bytes × UInt64) := []

def parseServeCase (ts : List String) : ServeCase :=
  let secs := splitBar ts
  let cfg := secs.headD []
  let c : ServeCase := cfg.foldl (fun c t =>
    if t.startsWith "pw=" then { c with pw := some (unhex (t.drop 3).toString) }
    else if t == "nohandler" then { c with noHandler := true }
    else if t == "trace" then { c with trace := true }
    else if t == "blk" then { c with blk := true }
    else c) {}
  { c with segs := (secs.getD 1 []).map unhex, script := parseScript (secs.getD 2 []),
           floats := parseFloatTable (secs.getD 3 []) }

def countWr : List Ev → Nat
  | [] => 0
  | .wr _ :: es => countWr es + 1
  | _ :: es => countWr es

def countRoot : List Ev → Nat
  | [] => 0
  | .rootStart :: es => countRoot es + 1
  | _ :: es => countRoot es

def runServeCase (c : ServeCase) : String :=
  let pf : FloatOracle := fun tok => c.floats.lookup tok
  let srv : SrvSt := { authPw := c.pw, hasHandler := !c.noHandler,
                       config := (match c.pw with | some p => [(b!"requirepass", p)] | none => []) ++ [(b!"port", b!"6379")] }
  let input := c.segs.flatten
  let evs := serve pf srv c.pw.isSome input c.script
  let toks := showTrace c.trace evs {}
  let blk := if c.blk then
      let ends := valueEnds (input.length + 1) input 0
      let served := countWr evs
      let quit := countRoot evs == served
      " # B " ++ String.intercalate " " ((blockCounts ends served quit (cumulative (c.segs.map List.length) 0)).map toString)
    else ""
  String.intercalate " " toks ++ blk

/-- pairs "<conn id> <hex request>" -/
def parseSchedule : List String → List (Nat × Bytes)
  | i :: h :: rest => (i.toNat?.getD 0, unhex h) :: parseSchedule rest
  | _ => []

def showSysEv (i : Nat) : Ev → Option String
  | .wr bs => some s!"c{i}:wr:{canonReply bs}"
  | .hcall c v => some s!"c{i}:hc:{showCall c}@{v.db},{b01 v.authorized},own"
  | _ => none

/-- run a schedule request by request, rendering the tagged events; a connection that ends is closed -/
def runSchedule (pf : FloatOracle) : Sys → List (Nat × Bytes) → List String
  | _, [] => []
  | s, (i, raw) :: rest =>
    match parse (raw.length + 1) raw with
    | .ok m _ =>
      let alive := match s.conns[i]? with | some (some _) => true | _ => false
      let (s1, evs) := s.step pf i m
      let ended := alive && (match s1.conns[i]? with | some (some _) => false | _ => true)
      evs.filterMap (showSysEv i) ++ (if ended then [s!"c{i}:close"] else []) ++ runSchedule pf s1 rest
    | _ => runSchedule pf s rest

def runSysCase (ts : List String) : String :=
  let secs := splitBar ts
  let cfg := secs.headD []
  let n := (cfg.filterMap fun t => if t.startsWith "n=" then (t.drop 2).toString.toNat? else none).headD 1
  let pw := (cfg.filterMap fun t => if t.startsWith "pw=" then some (unhex (t.drop 3).toString) else none).head?
  let script := parseScript (secs.getD 1 [])
  let floats := parseFloatTable (secs.getD 2 [])
  let pf : FloatOracle := fun tok => floats.lookup tok
  let srv : SrvSt := { authPw := pw, config := (match pw with | some p => [(b!"requirepass", p)] | none => []) ++ [(b!"port", b!"6379")] }
  let s : Sys := { srv := srv, conns := List.replicate n (some { authorized := !pw.isSome }), script := script }
  String.intercalate " " (runSchedule pf s (parseSchedule (secs.getD 3 [])))

def handleLine (toks : List String) : String :=
  match toks with
  | "enc" :: ts =>
    match parseMsgToks ts with
    | some (m, _) => match encGo m with
      | some b => hex b
      | none => "panic"
    | none => "bad-case"
  | "rt" :: ts =>
    match parseMsgToks ts with
    | some (m, _) =>
      match encGo m with
      | none => "panic"
      | some b =>
        let back := streamOutcome [b ++ b!":7\r\n"] 4
        let re := match parse (b.length + 1) b with
          | .ok m' _ => (match encGo m' with | some b' => hex b' | none => "panic")
          | _ => "none"
        s!"enc={hex b} back={back} reenc={re}"
    | none => "bad-case"
  | "serve" :: ts => runServeCase (parseServeCase ts)
  | "sys" :: ts => runSysCase ts
  | "chunks" :: ts => streamOutcome ((afterBar ts).map unhex) 1048576
  | "hostile" :: hs => streamOutcome (hs.map unhex) 1048576
  | ["ctor", "int", n] =>
    match n.toInt? with
    | some i =>
      let b := enc (.line .int (itoa i))
      let back := match parse (b.length + 1) b with
        | .ok (.line .int p) _ => (match atoi p with | some v => toString v | none => "atoi-fail")
        | _ => "parse-fail"
      s!"enc={hex b} back={back}"
    | none => "bad-case"
  | ["ctor", "status", h] => s!"enc={hex (enc (.line .str (unhex h)))}"
  | ["ctor", "error", h] => s!"enc={hex (enc (.line .err (unhex h)))}"
  | ["ctor", "bulk", h] => s!"enc={hex (enc (.bulk (some (unhex h))))}"
  | ["ctor", "nil"] => s!"enc={hex (enc (.bulk none))}"
  | ["ctor", "ok"] => s!"enc={hex (enc (.line .str b!"OK"))}"
  | "ctor" :: "strs" :: hs => s!"enc={hex (enc (.arr (hs.map fun h => .bulk (some (unhex h)))))}"
  | ["ctor", "float", _, fmt] => s!"enc={hex (enc (.bulk (some (unhex fmt))))} fmt={fmt}"
  | _ => "bad-op"

partial def loop (h : IO.FS.Stream) (out : IO.FS.Stream) : IO Unit := do
  let line ← h.getLine
  if line.isEmpty then return ()
  let toks := (line.trimAscii.toString.splitOn " ").filter (· ≠ "")
  out.putStrLn (handleLine toks)
  loop h out

def main : IO Unit := do
  let out ← IO.getStdout
  loop (← IO.getStdin) out
