import GoRedisModel.Model.Wire
import GoRedisModel.Model.ParserImpl
/-! Line-protocol driver: one case per input line, one canonical result per output line.
Built as the core-only executable `modeldriver`; the definitions it runs are the ones the theorems are about. -/
open GoRedis

def showPRes (total : Nat) : PRes → String
  | .ok m rest => s!"ok {showMsg m} consumed={total - rest.length}"
  | .eof => "eof"
  | .err => "err"
  | .fuel => "fuel"

/-- run the chunked parser to the end of the stream, printing each value with the bytes it consumed -/
def runChunks : Nat → Nat → Reader → List String → List String
  | 0, _, _, acc => (acc.reverse ++ ["fuel"])
  | k+1, f, r, acc =>
    let before := r.rest.length
    match inext f r with
    | .ok m r' => runChunks k f r' (s!"v {showMsg m} consumed={before - r'.rest.length}" :: acc)
    | .eof => acc.reverse ++ ["eof"]
    | .err => acc.reverse ++ ["err"]
    | .panic => acc.reverse ++ ["panic"]
    | .fuel => acc.reverse ++ ["fuel"]

def handleLine (toks : List String) : String :=
  match toks with
  | "enc" :: ts =>
    match parseMsgToks ts with
    | some (m, _) => match encGo m with
      | some b => hex b
      | none => "panic"
    | none => "bad-case"
  | "rt" :: ts =>
    match parseMsgToks ts with
    | some (m, _) =>
      match encGo m with
      | none => "panic"
      | some b =>
        let back := parse (b.length + 1) b
        let re := match back with
          | .ok m' _ => (match encGo m' with | some b' => hex b' | none => "panic")
          | _ => "none"
        s!"enc={hex b} back={showPRes b.length back} reenc={re}"
    | none => "bad-case"
  | ["parse", h] =>
    let b := unhex h
    showPRes b.length (parse (b.length + 1) b)
  | "parsechunks" :: hs =>
    let chunks := hs.map unhex
    let r : Reader := ⟨chunks⟩
    let n := r.rest.length
    String.intercalate " ; " (runChunks (n + 2) (n + 1) r [])
  | ["ctor", "int", n] =>
    match n.toInt? with
    | some i =>
      let b := enc (.line .int (itoa i))
      let back := match parse (b.length + 1) b with
        | .ok (.line .int p) _ => (match atoi p with | some v => toString v | none => "atoi-fail")
        | _ => "parse-fail"
      s!"enc={hex b} back={back}"
    | none => "bad-case"
  | ["ctor", "status", h] => s!"enc={hex (enc (.line .str (unhex h)))}"
  | ["ctor", "error", h] => s!"enc={hex (enc (.line .err (unhex h)))}"
  | ["ctor", "bulk", h] => s!"enc={hex (enc (.bulk (some (unhex h))))}"
  | ["ctor", "nil"] => s!"enc={hex (enc (.bulk none))}"
  | ["ctor", "ok"] => s!"enc={hex (enc (.line .str b!"OK"))}"
  | "ctor" :: "strs" :: hs => s!"enc={hex (enc (.arr (hs.map fun h => .bulk (some (unhex h)))))}"
  | ["ctor", "float", _, fmt] => s!"enc={hex (enc (.bulk (some (unhex fmt))))} fmt={fmt}"
  | _ => "bad-op"

partial def loop (h : IO.FS.Stream) (out : IO.FS.Stream) : IO Unit := do
  let line ← h.getLine
  if line.isEmpty then return ()
  let toks := (line.trimAscii.toString.splitOn " ").filter (· ≠ "")
  out.putStrLn (handleLine toks)
  loop h out

def main : IO Unit := do
  let out ← IO.getStdout
  loop (← IO.getStdin) out
