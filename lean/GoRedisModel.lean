-- Root of the `GoRedisModel` library: importing every property module builds the whole development.
import GoRedisModel.Properties.C01
