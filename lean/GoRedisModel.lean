-- Root of the `GoRedisModel` library: importing every property module builds the whole development.
import GoRedisModel.Properties.C01
import GoRedisModel.Properties.C02
import GoRedisModel.Properties.C06
