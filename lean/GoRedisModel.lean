-- Root of the `GoRedisModel` library: importing every property module builds the whole development.
import GoRedisModel.Properties.C01
import GoRedisModel.Properties.C02
import GoRedisModel.Properties.C03
import GoRedisModel.Properties.C04
import GoRedisModel.Properties.C05
import GoRedisModel.Properties.C06
import GoRedisModel.Properties.C07
import GoRedisModel.Properties.C10
import GoRedisModel.Properties.C11
import GoRedisModel.Properties.C20
import GoRedisModel.Properties.C08
import GoRedisModel.Properties.C13
import GoRedisModel.Properties.C12
import GoRedisModel.Properties.C17
import GoRedisModel.Properties.C18
